SPECIFICATION Spec
CONSTANT MaxLen = 3
INVARIANT Unambiguous
CHECK_DEADLOCK FALSE
