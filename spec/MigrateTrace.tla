---------------------------- MODULE MigrateTrace ----------------------------
(***************************************************************************)
(* C18: every migrate call recorded from the real contracts (all stored    *)
(* version strings x contract names x paths, on pre-upgrade stores whose   *)
(* legacy layouts were written as raw bytes) against Migration.tla.        *)
(***************************************************************************)
EXTENDS Migration, SequencesExt, Json, IOUtils

Rec == ndJsonDeserialize(IOEnv.TRACE)
N == Len(Rec)
R(c, n) == IF c THEN {} ELSE {n}

Problems(r) ==
  CASE r.kind = "gate" ->
         LET want == StakingMigrateOk(r.name, r.version, r.vp, r.path) IN
         R(~r.panic, "panic")
         \cup R(r.ok = want, IF want THEN "refused although version-gate and path match" ELSE "accepted against the version gate")
         \cup R(r.ok \/ r.unchanged, "refused migration changed the store")
         \cup R(~r.ok \/ (r.post_name = StakingName /\ r.post_version = "1.1.0"), "new version not recorded")
         \cup R(~r.ok \/ r.nmsgs = 0, "migration emitted messages")
         \cup R(~(r.ok /\ want) \/
                r.post = (CASE r.path = "v0_4_18_to_v0_4_20" -> Cfg_0_4_18_to_0_4_20(r.pre, r.send_fees)
                            [] r.path = "v0_4_20_to_v1_0_0" -> Cfg_0_4_20_to_1_0_0(r.pre, "celestia", "celestiavaloper", "utia", "osmo")
                            [] r.path = "v1_0_0_to_v1_1_0" -> r.pre),
                "configuration not translated field by field")
    [] r.kind = "v110" ->
         R(~r.panic, "panic") \cup R(r.ok, "1.0.0 -> 1.1.0 refused from its exact source version")
         \cup R(~r.ok \/ ToSet(r.postpk) = Pk_1_0_0_to_1_1_0(ToSet(r.prepk), r.natden, r.staker), "tracked transfers not preserved")
         \cup R(~r.ok \/ Len(r.postpk) = Len(r.prepk), "tracked transfers duplicated or lost")
         \cup R(~r.ok \/ ToSet(r.postwait) = Wait_1_0_0_to_1_1_0(ToSet(r.prewait), r.natden, r.staker), "pending replies not preserved")
         \cup R(~r.ok \/ r.others_unchanged, "other stored data touched")
         \cup R(~r.ok \/ (r.post_version = "1.1.0" /\ r.post_name = StakingName), "new version not recorded")
    [] r.kind = "tgate" ->
         LET want == TreasuryMigrateOk(r.name, r.vp) IN
         R(~r.panic, "panic") \cup R(r.ok = want, "treasury version gate") \cup R(r.ok \/ r.unchanged, "refused migration changed the store")

VARIABLES l, nfind
TInit == l = 1 /\ nfind = 0
TNext == /\ l <= N
         /\ LET P == Problems(Rec[l]) IN
              /\ nfind' = nfind + Cardinality(P)
              /\ IF P = {} THEN TRUE
                 ELSE PrintT("FINDING " \o ToJson([i |-> l, fs |-> {[l |-> l, kind |-> "migrate", m |-> Rec[l].kind, atom |-> x, props |-> {"C18"}] : x \in P}]))
         /\ l' = l + 1
TSpec == TInit /\ [][TNext]_<<l, nfind>>
Accepted == IF TLCGet("stats").diameter - 1 = N THEN PrintT("TRACE-CONSUMED " \o ToString(N))
            ELSE PrintT("TRACE-STUCK at line " \o ToString(TLCGet("stats").diameter)) /\ FALSE
=============================================================================
