----------------------------- MODULE HookLemma -----------------------------
(***************************************************************************)
(* C09, unambiguity of the hashed string "<channel>/<sender>": for channel *)
(* ids accepted by configuration validation (types.rs: "channel-" followed *)
(* by a u64, hence no '/') the concatenation is injective on pairs, so two *)
(* different (channel, sender) pairs are never hashed to the same input.   *)
(* Checked exhaustively on strings over a 3-letter alphabet that contains  *)
(* the separator; senders may contain the separator, channels may not.     *)
(***************************************************************************)
EXTENDS Integers, Sequences, FiniteSets, TLC

CONSTANTS MaxLen
Alphabet == {"a", "1", "/"}
Strs(n) == UNION {[1..k -> Alphabet] : k \in 0..n}
NoSlash(s) == \A i \in DOMAIN s : s[i] # "/"
Channels == {c \in Strs(MaxLen) : NoSlash(c)}
Senders == Strs(MaxLen)
Hashed(c, s) == c \o <<"/">> \o s

VARIABLE done
Init == done = FALSE
Next == done' = TRUE
Spec == Init /\ [][Next]_done
Unambiguous ==
  \A c1 \in Channels, c2 \in Channels, s1 \in Senders, s2 \in Senders :
     Hashed(c1, s1) = Hashed(c2, s2) => (c1 = c2 /\ s1 = s2)
\* the negative: without the restriction on channels the encoding IS ambiguous (guards against a vacuous check)
AmbiguousWithoutRule ==
  \E c1 \in Senders, c2 \in Senders, s1 \in Senders, s2 \in Senders :
     Hashed(c1, s1) = Hashed(c2, s2) /\ <<c1, s1>> # <<c2, s2>>
ASSUME AmbiguousWithoutRule
=============================================================================
