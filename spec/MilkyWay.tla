------------------------------ MODULE MilkyWay ------------------------------
(***************************************************************************)
(* The composed system as a state machine: users, operator, admin,         *)
(* monitors, the IBC relayer and the clock interleave arbitrarily; every   *)
(* step is one atomic transaction Chain!Exec(w, call). The calls carry     *)
(* exactly the fields the harness logs, so a behaviour of this model is    *)
(* directly executable against the real contract (harness `tree`), and a   *)
(* recorded execution is directly checkable against Exec (Trace.tla).      *)
(*                                                                         *)
(* Bounded configurations live in MC_*.cfg; they all instantiate this      *)
(* module. `sid`/`par` give every generated transition an identity so that *)
(* TLC can emit ONE implementation test per transition (see Emit); both    *)
(* are hidden from the state by VIEW.                                      *)
(***************************************************************************)
EXTENDS Chain, Json

CONSTANTS
  Users,          \* protocol-chain accounts that stake / unstake / withdraw
  StakeAmts, UnstakeAmts, RewardAmts,
  FeeRate, TreasuryAddr, OracleAddr, MinStake,      \* configuration under test
  BatchPeriod, Unbonding,
  RcvKinds,       \* subset of {"self", "native"}: where minted LST goes
  Outcomes,       \* subset of {"ok", "err", "timeout"}: relayer outcomes explored
  SubmitFails,    \* subset of {0, 1}: index of an IBC transfer the chain refuses to submit (per call)
  Returns,        \* subset of {"exact", "short", "long"}: operator behaviour
  Principals,     \* senders tried for permissioned / permissionless calls
  AdminOps,       \* BOOLEAN: breaker, resume, fee withdrawal, forced recovery
  ResumeScales,   \* e.g. {"same", "down"}: totals an admin supplies on resume
  StartHalted,    \* BOOLEAN: begin right after instantiate (halted) or after an identity resume
  SamePrefix,     \* BOOLEAN: both chains use the same bech32 prefix (recipient class "both": the flag decides)
  Extras,         \* subset of {"wrongsender", "stray", "matrix", "slippage", "mintto", "direct"}: extra negative / variant calls
  MaxTime, MaxBatches, MaxSeq, MaxN, MaxPk,
  EmitTests       \* BOOLEAN: number transitions and print them (run with -workers 1)

VARIABLES w, sid, par
vars == <<w, sid, par>>
View == w

T0 == 1700000000
\* "upmon": the second monitor is configured in an upper-case spelling of its address (legal, stored verbatim)
Monitors0 == IF "upmon" \in Extras THEN {"mon1", "MON2"} ELSE {"mon1", "mon2"}
Staker == "staker"
Collector == "collector"
Channel == "channel-1"
NatD == "IBCTIA"
LstD == "LST"
NatOf(u) == "n:" \o u

Cfg == [natPrefix |-> IF SamePrefix THEN "osmo" ELSE "celestia",
        valPrefix |-> IF SamePrefix THEN "osmovaloper" ELSE "celestiavaloper", tokenDenom |-> "utia",
        validators |-> {"val1", "val2"}, unbonding |-> Unbonding, staker |-> Staker, collector |-> Collector,
        protoPrefix |-> "osmo", channel |-> Channel, natDen |-> NatD, minStake |-> MinStake,
        oracle |-> OracleAddr, fee |-> FeeRate, treasury |-> TreasuryAddr, monitors |-> Monitors0,
        batchPeriod |-> BatchPeriod, lst |-> LstD]

StartFunds == 12
\* ("direct": the admin holds staked asset too, so that it can try to pay a batch in directly)
Funded == Users \cup (IF "direct" \in Extras THEN {"admin"} ELSE {})
InitBank == [k \in (Funded \X {NatD}) |-> StartFunds]

Init ==
  /\ w = LET w0 == InitWorld(Cfg, "admin", T0, InitBank)
             w1 == IF StartHalted THEN w0 ELSE [w0 EXCEPT !.c.stopped = FALSE]
         \* with "tspend" the treasury CONTRACT is deployed at the treasury address: protocol fees paid by the
         \* staking contract land in its balance and its admin spends them (both contracts in one model)
         IN IF "tspend" \in Extras
            THEN [w1 EXCEPT !.t = [inst |-> TRUE, admin |-> "admin", pending |-> OwnNone, minTime |-> OwnNoTime,
                                   trader |-> "trader", routes |-> << >>]]
            ELSE w1
  /\ sid = 0
  /\ par = 0
  /\ (EmitTests => /\ TLCSet(1, 0)
                    /\ PrintT("MODEL " \o ToJson([users |-> Funded, fee |-> FeeRate, treasury |-> TreasuryAddr,
                               oracle |-> OracleAddr, minStake |-> MinStake, batchPeriod |-> BatchPeriod,
                               unbonding |-> Unbonding, halted |-> StartHalted, funds |-> StartFunds, samePrefix |-> SamePrefix,
                               monitors |-> SetToSeq(Monitors0),
                               treasuryContract |-> "tspend" \in Extras])))

---------------------------------------------------------------------------
\* ------------------------------------------------------------------ the call alphabet
StakeCallX(u, a, kind, fails, expected, other) ==
  [m |-> "liquid_stake", s |-> u, funds |-> <<<<NatD, a>>>>,
   mint_to |-> CASE kind = "native" -> NatOf(u) [] kind = "staker" -> Staker [] kind = "other" -> other [] OTHER -> "",
   to_native |-> "none", expected |-> expected,
   ibc_fail |-> fails, rclass |-> IF SamePrefix THEN "both" ELSE IF kind \in {"native", "staker"} THEN "native" ELSE "protocol",
   \* "staker": the minted LST goes to the staker's own native address, so that one receiver has transfers of BOTH denoms
   r |-> CASE kind = "native" -> NatOf(u) [] kind = "staker" -> Staker [] kind = "other" -> other [] OTHER -> u,
   \* "c1" is a 32-byte (contract / ibc-hooks style) account: it must name a mint_to address
   skind |-> IF u = "c1" THEN "long" ELSE "eoa"]
StakeCall(u, a, kind, fails) == StakeCallX(u, a, kind, fails, NoAmt, "")
UnstakeCall(u, a) == [m |-> "liquid_unstake", s |-> u, funds |-> <<<<LstD, a>>>>]
SubmitCall(u) == [m |-> "submit_batch", s |-> u]
WithdrawCall(u, b) == [m |-> "withdraw", s |-> u, b |-> b]
RewardsCall(a, from) == [m |-> "hook", inner |-> "receive_rewards", channel |-> Channel, from |-> from, amt |-> a, b |-> 0]
UnstakedCall(b, a, from) == [m |-> "hook", inner |-> "receive_unstaked_tokens", channel |-> Channel, from |-> from,
                             amt |-> a, b |-> b, limited |-> from = Staker]
AckCall(seq, outcome) == [m |-> "ibc_ack", seq |-> seq, outcome |-> outcome]
RecoverCall(u, rcv, fails) == [m |-> "recover", s |-> u, paginated |-> "none", has_sel |-> FALSE, sel |-> << >>,
                               receiver |-> rcv, rvalid |-> TRUE, ibc_fail |-> fails]
ForcedCall(u, sel, rcv) == [m |-> "recover", s |-> u, paginated |-> "none", has_sel |-> TRUE, sel |-> sel,
                            receiver |-> rcv, rvalid |-> TRUE, ibc_fail |-> << >>]
FeeWithdrawCall(u, a) == [m |-> "fee_withdraw", s |-> u, amt |-> a]
BreakerCall(u) == [m |-> "circuit_breaker", s |-> u]
ResumeCall(u, n, l, r) == [m |-> "resume_contract", s |-> u, n |-> n, l |-> l, r |-> r]
TimeCall(t) == [m |-> "time", t |-> t, ns |-> 0]
NatFundCall(a, x) == [m |-> "nat_fund", a |-> a, x |-> x]

FailSeqs == {<< >>} \cup {<<i>> : i \in SubmitFails}
Deadlines == ({w.c.batches[b].due : b \in BatchIds(w.c)} \cup {w.c.minTime}) \ {NoAmt}
\* the clock only jumps to the instants the timing clauses talk about: one second before, exactly at
\* and one second after each stored deadline
TimePoints == {t \in UNION {{d - 1, d, d + 1} : d \in Deadlines} : t > w.now /\ t <= T0 + MaxTime}

---------------------------------------------------------------------------
\* ------------------------------------------------------------------ one step
\* The predicted successor and emitted messages, compared by the harness on EVERY replayed transition
\* (set-valued components are compared as sets). Only configuration and ledgers are left out.
SumOver(S, F(_)) == MapThenSumSet(F, S)
MsgDigest(m) ==
  CASE m.k = "oracle" -> <<m.k, m.red, m.pur, m.to>>
    [] m.k = "send"   -> <<m.k, m.den, m.amt, m.to>>
    [] m.k = "ibc"    -> <<m.k, m.den, m.amt, m.rcv, m.seq>>
    [] m.k = "tf_mint" -> <<m.k, m.den, m.amt, m.to>>
    [] m.k = "tf_burn" -> <<m.k, m.den, m.amt, m.from>>
    [] OTHER -> <<m.k>>
Digest(r) ==
  LET x == r.w IN
  [ok |-> r.ok,
   s |-> <<x.c.stopped, x.c.N, x.c.L, x.c.fees, x.c.rewards, x.c.pend, x.c.admin, x.c.pending, x.sup, x.ibc.next,
           x.now % 100000, x.led.swept, x.led.deliv>>,
   b |-> [i \in DOMAIN x.c.batches |-> <<x.c.batches[i].total, x.c.batches[i].expected, x.c.batches[i].received,
                                          x.c.batches[i].cnt, IF x.c.batches[i].due = NoAmt THEN NoAmt ELSE x.c.batches[i].due % 100000,
                                          x.c.batches[i].status>>],
   q |-> {<<q.b, q.u, q.amt>> : q \in x.c.reqs},
   p |-> {<<p.seq, p.den, p.amt, p.rcv, p.status>> : p \in x.c.pk},
   f |-> {<<p.seq, p.den, p.amt, p.rcv>> : p \in x.ibc.fly},
   k |-> {<<k[1], k[2], x.bank[k]>> : k \in {j \in DOMAIN x.bank : x.bank[j] # 0}},
   n |-> {<<a, x.nat.bal[a]>> : a \in {j \in DOMAIN x.nat.bal : x.nat.bal[j] # 0}},
   l |-> {<<a, x.nat.lst[a]>> : a \in {j \in DOMAIN x.nat.lst : x.nat.lst[j] # 0}},
   m |-> [i \in DOMAIN r.msgs |-> MsgDigest(r.msgs[i])]]
Do(call) ==
  LET r == Exec(w, call) IN
  /\ w' = r.w
  /\ par' = sid
  /\ IF EmitTests
     THEN /\ TLCSet(1, TLCGet(1) + 1)
          /\ sid' = TLCGet(1)
          /\ PrintT("EDGE " \o ToJson([src |-> sid, id |-> sid', call |-> call, d |-> Digest(r)]))
     ELSE sid' = 0

Stake        == \E u \in Users, a \in StakeAmts, k \in RcvKinds, f \in FailSeqs :
                  IF SamePrefix
                  THEN \E tn \in {"none", "false", "true"} : Do([StakeCall(u, a, k, f) EXCEPT !.to_native = tn])
                  ELSE Do(StakeCall(u, a, k, f))
\* expected_mint_amount one below (a guard, not the amount minted) / exactly met / one above; minting to another protocol-chain account
ExactMint(a) == LET sweep == w.c.L = 0 /\ w.c.N # 0 IN MintAmount(IF sweep THEN 0 ELSE w.c.N, w.c.L, a)
StakeVariants == \/ /\ "slippage" \in Extras
                    /\ \E u \in Users, a \in StakeAmts, d \in {-1, 0, 1}, k \in {"self", "native"} :
                          ExactMint(a) + d >= 0 /\ Do(StakeCallX(u, a, k, << >>, ExactMint(a) + d, ""))
                 \/ /\ "mintto" \in Extras
                    /\ \E u \in Users, a \in StakeAmts, o \in (Users \cup {"c1", "u1"}) : o # u /\ Do(StakeCallX(u, a, "other", << >>, NoAmt, o))
Unstake      == \E u \in Users, a \in UnstakeAmts : Bal(w.bank, u, LstD) >= a /\ Do(UnstakeCall(u, a))
Submit       == \E u \in Principals : Do(SubmitCall(u))
\* (also for a batch id that does not exist)
Withdraw_    == \E u \in Users, b \in BatchIds(w.c) \cup {Len(w.c.batches) + 1} : Do(WithdrawCall(u, b))
\* (the chain may refuse the restaking transfer of a reward at submission: the whole delivery is then rolled back)
Rewards      == \E a \in RewardAmts, f \in FailSeqs : Do(RewardsCall(a, Collector) @@ [ibc_fail |-> f])
ReturnBatch  == \E b \in Outstanding(w), k \in Returns :
                  LET e == w.c.batches[b].expected
                      a == CASE k = "exact" -> e [] k = "short" -> e - 1 [] k = "long" -> e + 1 [] k = "one" -> 1
                  IN a > 0 /\ Do(UnstakedCall(b, a, Staker))
\* deliveries that must be refused: the other hook account, a batch that is not Submitted (pending, or
\* already Received - a second delivery), direct calls by ordinary accounts
WrongSender  == "wrongsender" \in Extras /\
                  \/ \E a \in RewardAmts : Do(RewardsCall(a, Staker))
                  \/ \E b \in BatchIds(w.c) : Do(UnstakedCall(b, 1, Collector))
                  \/ \E b \in BatchIds(w.c) \ Outstanding(w) : Do([UnstakedCall(b, 2, Staker) EXCEPT !.limited = FALSE])
                  \* the right sender with a single coin of ANOTHER denom: not a staked-asset payment
                  \/ \E b \in Outstanding(w) : Do([UnstakedCall(b, w.c.batches[b].expected, Staker) EXCEPT !.limited = FALSE] @@ [den |-> "OTHERIBC"])
                  \/ \E a \in RewardAmts : Do(RewardsCall(a, Collector) @@ [den |-> "OTHERIBC"])
                  \* forced recovery by somebody who is not the admin, of any tracked packet (in flight or not)
                  \/ \E p \in w.c.pk, u \in Principals : u # w.c.admin /\ Do(ForcedCall(u, <<p.seq>>, IF p.rcv = Staker THEN "" ELSE p.rcv))
\* ("direct" also lets the funded admin stake like anybody else - in particular while the contract is halted)
AdminStake   == "direct" \in Extras /\ \E a \in StakeAmts : Bal(w.bank, "admin", NatD) >= a /\ Do(StakeCall("admin", a, "self", << >>))
Direct       == "direct" \in Extras /\ \E u \in Principals :
                  \/ Do([m |-> "receive_rewards", s |-> u, funds |-> << >>])
                  \/ \E b \in BatchIds(w.c) : Do([m |-> "receive_unstaked_tokens", s |-> u, b |-> b, funds |-> << >>])
                  \* ... and with a real payment attached, by whoever holds staked asset (the admin among them)
                  \/ Bal(w.bank, u, NatD) >= 1 /\ Do([m |-> "receive_rewards", s |-> u, funds |-> <<<<NatD, 1>>>>])
                  \/ \E b \in BatchIds(w.c) : Bal(w.bank, u, NatD) >= 1 /\
                        Do([m |-> "receive_unstaked_tokens", s |-> u, b |-> b, funds |-> <<<<NatD, 1>>>>])
\* wrong payments: staking with the LST, unstaking with the staked asset, two coins at once, no coin at all; a
\* delivery for a batch id that does not exist; recovery towards something that is not a native-chain address
BadInputs    == "badinputs" \in Extras /\
                  \/ \E u \in Users : Bal(w.bank, u, LstD) >= 1 /\ Do([StakeCall(u, 1, "self", << >>) EXCEPT !.funds = <<<<LstD, 1>>>>])
                  \/ \E u \in Users : Bal(w.bank, u, NatD) >= 1 /\ Do([UnstakeCall(u, 1) EXCEPT !.funds = <<<<NatD, 1>>>>])
                  \/ \E u \in Users : Bal(w.bank, u, LstD) >= 1 /\ Bal(w.bank, u, NatD) >= 3 /\
                        Do([StakeCall(u, 3, "self", << >>) EXCEPT !.funds = <<<<NatD, 3>>, <<LstD, 1>>>>])
                  \/ \E u \in Users : Do([StakeCall(u, 3, "self", << >>) EXCEPT !.funds = << >>])
                  \/ \E u \in Users : Do([UnstakeCall(u, 1) EXCEPT !.funds = << >>])
                  \/ Do([UnstakedCall(Len(w.c.batches) + 1, 2, Staker) EXCEPT !.limited = FALSE])
                  \/ \E u \in Principals : (\E p \in w.c.pk : Refundable(p)) /\
                        Do([RecoverCall(u, "osmo1bad", << >>) EXCEPT !.rvalid = FALSE])
\* callbacks that do not belong to a packet in flight: another channel (even for a tracked sequence), an unknown sequence
Stray_       == "stray" \in Extras /\ \E k \in {"ok", "err", "timeout"} :
                  \/ \E p \in w.c.pk : Do([m |-> "stray", channel |-> "channel-9", seq |-> p.seq, kind |-> k])
                  \/ Do([m |-> "stray", channel |-> Channel, seq |-> 77, kind |-> k])
\* the admin-only messages tried by every principal
\* the admin switches the treasury on and off (fees accrue without one and are withdrawn to one)
Toggle       == "toggle" \in Extras /\
                  Do([m |-> "update_config", s |-> w.c.admin,
                      up |-> [feecfg |-> [fee |-> w.c.cfg.fee, treasury |-> IF w.c.cfg.treasury = "" THEN "treasury" ELSE "", valid |-> TRUE]]])
\* the treasury contract's admin (and others, refused) spend the fees the staking contract paid in
TSpend       == "tspend" \in Extras /\ \E u \in Principals, a \in {1, Bal(w.bank, TreasuryAcct, NatD) + 1} :
                  Do([m |-> "t_spend", s |-> u, den |-> NatD, amt |-> a, receiver |-> "u1", channel |-> "", rosmo |-> TRUE, rcel |-> FALSE])
\* the admin moves the contract to another IBC channel; sequence numbers are per channel, so the next
\* transfer is numbered by the new channel's counter (here: it starts again at 1)
Rechannel    == "rechannel" \in Extras /\ w.c.cfg.channel = Channel /\
                  Do([m |-> "update_config", s |-> w.c.admin,
                      up |-> [proto |-> [channel |-> "channel-2", minStake |-> w.c.cfg.minStake, oracle |-> w.c.cfg.oracle, valid |-> TRUE]]])
NewCounter   == "rechannel" \in Extras /\ w.c.cfg.channel = "channel-2" /\ w.ibc.next > 1 /\ ~w.led.forced /\
                  (\A p \in w.ibc.fly : FALSE) /\ Do([m |-> "ibc_set_next", n |-> 1])
\* ("matrix": only by principals that are not the admin - all refused, no new states; "matrixadmin": by everyone)
Matrix       == ("matrix" \in Extras \/ "matrixadmin" \in Extras) /\ \E u \in Principals :
                  /\ ("matrixadmin" \in Extras \/ u # w.c.admin)
                  /\ \/ Do([m |-> "add_validator", s |-> u, v |-> "val3", vvalid |-> TRUE])
                     \/ Do([m |-> "remove_validator", s |-> u, v |-> "val1", vvalid |-> TRUE])
                     \/ Do([m |-> "update_config", s |-> u, up |-> [period |-> [secs |-> BatchPeriod + 1]]])
                     \/ Do([m |-> "update_config", s |-> u, up |-> [feecfg |-> [fee |-> FeeRate, treasury |-> IF w.c.cfg.treasury = "" THEN "treasury" ELSE "", valid |-> TRUE]]])
                     \/ Do([m |-> "transfer_ownership", s |-> u, to |-> "admin2", tvalid |-> TRUE])
                     \/ Do([m |-> "revoke_ownership_transfer", s |-> u])
                     \/ Do([m |-> "accept_ownership", s |-> u])
\* the admin changes the batch period while a batch is collecting requests (its deadline must not move; the next batch
\* uses the new period), and clears the monitor list (a former monitor can no longer halt the contract)
Reperiod     == "period" \in Extras /\ w.c.cfg.batchPeriod = BatchPeriod /\
                  Do([m |-> "update_config", s |-> w.c.admin, up |-> [period |-> [secs |-> BatchPeriod + 1]]])
Demonitor    == "demonitor" \in Extras /\ w.c.cfg.monitors # {} /\
                  Do([m |-> "update_config", s |-> w.c.admin, up |-> [monitorsec |-> [list |-> << >>, valid |-> TRUE]]])
\* the admin removes the oracle in the middle of a history: from then on nothing is posted, everything else as before
Unoracle     == "unoracle" \in Extras /\ w.c.cfg.oracle # "" /\
                  Do([m |-> "update_config", s |-> w.c.admin,
                      up |-> [proto |-> [channel |-> w.c.cfg.channel, minStake |-> w.c.cfg.minStake, oracle |-> "", valid |-> TRUE]]])
TopUp        == "long" \in Returns /\ Get(w.nat.bal, Staker) < MaxN /\ Do(NatFundCall(Staker, 1))
Relay        == \E p \in w.ibc.fly, o \in Outcomes : Do(AckCall(p.seq, o))
\* (plain and paginated: a page takes the first ten REFUNDABLE transfers of that receiver, never anything else)
Recover_     == \E u \in Principals, rcv \in {""} \cup {NatOf(x) : x \in Users}, f \in FailSeqs, pg \in {"none", "true"} :
                  (\E p \in w.c.pk : Refundable(p)) /\ Do([RecoverCall(u, rcv, f) EXCEPT !.paginated = pg])
\* admin-selected recovery: one packet, the same packet listed twice (counts once), and two packets
\* (and an EMPTY selection, with and without tracked packets: refused, never an index into nothing)
\* ("forceinflight": the admin also re-sends packets that are still in flight - the history stops being honest, but
\*  each tracked packet is still re-sent at most once and a late callback for it is a callback for an unknown packet)
Forced       == AdminOps /\
                \/ \E u \in Principals : Do(ForcedCall(u, << >>, ""))
                \* towards somebody who is NOT the packet's receiver (refused: value never changes hands by recovery)
                \/ \E p \in w.c.pk, u \in Principals :
                      Refundable(p) /\ Do(ForcedCall(u, <<p.seq>>, IF p.rcv = Staker THEN NatOf(CHOOSE x \in Users : TRUE) ELSE ""))
                \/ \E p \in w.c.pk, u \in Principals :
                  /\ (Refundable(p) \/ ("forceinflight" \in Extras /\ u = w.c.admin))
                  /\ \/ \E sel \in {<<p.seq>>, <<p.seq, p.seq>>} :
                          Do(ForcedCall(u, sel, IF p.rcv = Staker THEN "" ELSE p.rcv))
                     \/ \E q \in w.c.pk : q.seq > p.seq /\ Refundable(q) /\
                          \E sel \in {<<p.seq, q.seq>>, <<p.seq, q.seq, p.seq>>} :
                             Do(ForcedCall(u, sel, IF p.rcv = Staker THEN "" ELSE p.rcv))
FeeWithdraw_ == AdminOps /\ \E u \in Principals, a \in {1, w.c.fees, w.c.fees + 1} : a > 0 /\ Do(FeeWithdrawCall(u, a))
Breaker      == AdminOps /\ \E u \in Principals : Do(BreakerCall(u))
\* (ResumeContract does not require the contract to be halted: the admin may also correct the totals of a running contract -
\*  "same" totals always, other corrections with "resumerunning")
Resume       == AdminOps /\ \E u \in Principals, k \in ResumeScales :
                  (w.c.stopped \/ k = "same" \/ "resumerunning" \in Extras) /\
                  LET n == CASE k \in {"same", "rewards0"} -> w.c.N [] k = "down" -> w.c.N - (w.c.N \div 3) [] k = "up" -> w.c.N + 1 [] k = "zerolst" -> 5
                      \* "zerolst": a positive staked total with NO LST (ownerless stake, swept to fees by the next stake)
                      l == IF k = "zerolst" THEN 0 ELSE w.c.L
                  \* at most one correction of the totals per behaviour (each one opens a new family of totals)
                  IN (l = 0 \/ n > 0) /\ (k \in {"same", "rewards0"} \/ (w.led.radjN = 0 /\ w.led.radjL = 0)) /\ (k = "zerolst" => w.c.L = 0)
                     /\ (k = "rewards0" => w.c.rewards > 0)
                     \* ("rewards0": the reward counter is corrected as well - downwards)
                     /\ Do(ResumeCall(u, n, l, IF k = "rewards0" THEN 0 ELSE w.c.rewards))
\* (the last second before a deadline is visited at its very end, .999999999: whole seconds decide, not nanoseconds)
Tick         == \E t \in TimePoints : Do([TimeCall(t) EXCEPT !.ns = IF (t + 1) \in Deadlines THEN 999999999 ELSE 0])

Next == Stake \/ StakeVariants \/ BadInputs \/ Unstake \/ Submit \/ Withdraw_ \/ Rewards \/ ReturnBatch \/ WrongSender \/ Direct \/ TopUp
        \/ Relay \/ Stray_ \/ Recover_ \/ Forced \/ FeeWithdraw_ \/ Breaker \/ Resume \/ Matrix \/ Toggle \/ TSpend \/ Rechannel \/ NewCounter \/ Reperiod \/ Demonitor \/ Unoracle \/ AdminStake \/ Tick

Spec == Init /\ [][Next]_vars

\* bounds (sequence numbers must be bounded or fail -> recover -> fail cycles make the space infinite)
Bounded ==
  /\ w.ibc.next <= MaxSeq + 1
  /\ Len(w.c.batches) <= MaxBatches
  /\ w.c.N <= MaxN
  /\ Cardinality(w.c.pk) <= MaxPk
  /\ w.now <= T0 + MaxTime

---------------------------------------------------------------------------
\* ------------------------------------------------------------------ properties
P_C01  == Inv_C01(w)
P_C01b == Inv_C01b(w)
P_C01c == Inv_C01c(w)
P_C02  == Inv_C02(w)
P_C03  == Inv_C03(w)
P_C05  == Inv_C05(w)
P_C06  == Inv_C06(w)
P_C07  == Inv_C07(w)
P_C11  == Inv_C11(w)
P_C16  == Inv_C16(w)
P_NonNeg == NonNeg(w)
\* action properties, checked by TLC on every transition
A_C06 == [][Act_C06(w, w')]_w
A_C04 == [][Act_C04s(w, w')]_w
\* halting changes nothing but the flag; refused calls change nothing (by construction of Exec)
A_C10 == [][(w.c.stopped /\ w'.c.stopped) =>
              (w'.c.N = w.c.N /\ w'.c.L = w.c.L /\ w'.c.reqs = w.c.reqs /\ w'.c.batches = w.c.batches
               /\ w'.c.rewards = w.c.rewards)]_w

\* vacuity guards: these are expected to be VIOLATED (reachability witnesses), checked in separate cfgs
Reach_HonestOutstanding == ~(w.led.honest /\ Outstanding(w) # {} /\ w.c.N > 0)
Reach_Received == ReceivedB(w) = {}
Reach_Refundable == ~(\E p \in w.c.pk : Refundable(p))
=============================================================================
