--------------------------- MODULE HookAuthTrace ---------------------------
(***************************************************************************)
(* C09 under every configuration the contract ACCEPTS.                     *)
(* In Staking.tla the cross-chain handlers accept exactly one sender, the  *)
(* intermediate account HookName(stored channel, stored staker / reward    *)
(* collector) under the stored protocol prefix. The model replays exercise *)
(* that rule under the configurations the model can express; this module   *)
(* closes the remaining quantifier ("all bech32 prefixes, all              *)
(* configurations including updates of prefix and channel"): the harness   *)
(* asks the contract to store a range of prefixes (valid, upper case,      *)
(* mixed case, foreign, malformed) and channels, and then offers a matured *)
(* batch and a reward payment from a range of senders. Each record states  *)
(*   expected_exists : an ibc-hooks intermediate account EXISTS for what   *)
(*                     is stored (the simulator's own transcription of the *)
(*                     keeper; none exists for a prefix that is not a      *)
(*                     bech32 human-readable part),                        *)
(*   is_expected     : the sender is that account,                         *)
(*   accepted        : the contract accepted the delivery.                 *)
(* Rule (both directions; every other precondition of the handlers is      *)
(* arranged to hold, so a refusal can only come from the sender check):    *)
(*   accepted <=> expected_exists /\ is_expected                           *)
(* In particular a stored configuration for which no intermediate account  *)
(* exists must make the handlers refuse everybody (fail closed).           *)
(***************************************************************************)
EXTENDS Integers, Sequences, FiniteSets, TLC, Json, IOUtils

Rec == ndJsonDeserialize(IOEnv.TRACE)
N == Len(Rec)

Findings(l) ==
  LET r == Rec[l]
      F(cond, atom) == IF cond THEN {[l |-> l, kind |-> "hookauth", m |-> r.handler, atom |-> atom, props |-> {"C09"},
                                      cand |-> r.cand, prefix |-> r.prefix, channel |-> r.channel]} ELSE {}
  IN F(r.panic, "panic")
     \* the configuration the sender is checked against is the one the admin asked for: an accepted update that is not
     \* (or only partly) installed keeps authenticating the accounts of the OLD channel / prefix / origin
     \cup F(~r.update_applied, "accepted UpdateConfig did not install the requested channel / prefix / native accounts")
     \cup F(r.accepted /\ ~(r.expected_exists /\ r.is_expected), "accepted a sender that is not the intermediate account")
     \cup F(~r.accepted /\ r.expected_exists /\ r.is_expected, "refused the intermediate account")

VARIABLES l, nfind
TInit == l = 1 /\ nfind = 0
TNext == /\ l <= N
         /\ LET F == Findings(l) IN
              /\ nfind' = nfind + Cardinality(F)
              /\ IF F = {} THEN TRUE ELSE PrintT("FINDING " \o ToJson([i |-> l, fs |-> F]))
         /\ l' = l + 1
TSpec == TInit /\ [][TNext]_<<l, nfind>>
Accepted == IF TLCGet("stats").diameter - 1 = N THEN PrintT("TRACE-CONSUMED " \o ToString(N))
            ELSE PrintT("TRACE-STUCK at line " \o ToString(TLCGet("stats").diameter)) /\ FALSE
=============================================================================
