----------------------------- MODULE QueriesMC -----------------------------
(***************************************************************************)
(* Paging completeness (C17) as a theorem of Queries.tla, checked by TLC   *)
(* over ALL stores of up to MaxBatches batches in mixed statuses: paging   *)
(* from no cursor with any page size >= 1 and any status filter returns    *)
(* every matching id exactly once, in ascending order.                     *)
(***************************************************************************)
EXTENDS Queries, TLC
CONSTANTS MaxBatches
Statuses == {"Pending", "Submitted", "Received"}
Stores == UNION {[1..n -> Statuses] : n \in 0..MaxBatches}
AsStore(f) == [i \in DOMAIN f |-> [id |-> i, tag |-> f[i]]]
VARIABLE st
Init == st \in Stores
Next == UNCHANGED st
Spec == Init /\ [][Next]_st
Complete ==
  \A k \in 1..(MaxBatches + 1), filter \in Statuses \cup {NoFilter} :
     Chain(AsStore(st), k, filter, NoCursor, MaxBatches + 2) = AllMatchingIds(AsStore(st), filter)
Ascending ==
  \A filter \in Statuses \cup {NoFilter} :
     LET ids == AllMatchingIds(AsStore(st), filter) IN
     /\ \A i \in 1..(Len(ids) - 1) : ids[i] < ids[i + 1]
     /\ ToSet(ids) = {i \in DOMAIN st : filter = NoFilter \/ st[i] = filter}
PagesArePrefixes ==
  \A sa \in {NoCursor} \cup 0..(MaxBatches + 1), lim \in {NoLimit} \cup 0..(MaxBatches + 1), filter \in Statuses \cup {NoFilter} :
     LET p == PageIds(AsStore(st), sa, lim, filter) IN
     /\ (lim # NoLimit) => Len(p) <= lim
     /\ \A i \in DOMAIN p : p[i] > sa
=============================================================================
