---------------------------- MODULE MCProtoWire ----------------------------
(***************************************************************************)
(* Bounded check of the laws of ProtoWire over a small universe of         *)
(* descriptors and values:                                                 *)
(*   RoundTrip   Decode(D, Encode(D, v)) = v                               *)
(*   Idem        a canonical re-encoding is its own canonical re-encoding  *)
(*   SameValue   canonicalising does not change the decoded value          *)
(* plus, as assumptions evaluated once, the behaviours measured on prost   *)
(* 0.12 (Measured) and the separation of field kinds by Vectors            *)
(* (Separation).  Each state is one byte string of one message type; the   *)
(* only transition canonicalises it.                                       *)
(***************************************************************************)
EXTENDS ProtoWire

F(tag, kind, card) == [tag |-> tag, kind |-> kind, card |-> card, ty |-> "", lty |-> "", kk |-> "", packed |-> TRUE]
P(f) == [oneof |-> FALSE, fs |-> <<f>>]
Msg(tag, card, ty) == [F(tag, "message", card) EXCEPT !.ty = ty, !.lty = ty]

MCT ==
  [Leaf |-> <<P(F(1, "uint64", "single")), P(F(2, "string", "single"))>>,
   S1 |-> <<P(F(1, "bool", "single")), P(F(2, "uint32", "single")), P(F(3, "int32", "single")), P(F(4, "uint64", "single"))>>,
   S2 |-> <<P(F(5, "string", "single")), P(F(6, "bytes", "single")), P(F(7, "enum", "single")), P(F(8, "fixed64", "single"))>>,
   R1 |-> <<P(F(1, "uint64", "repeated")), P(F(2, "string", "repeated")), P([F(6, "int32", "repeated") EXCEPT !.packed = FALSE]),
            P(F(7, "bytes", "optional")), P(F(8, "bool", "required"))>>,
   R2 |-> <<P(Msg(3, "repeated", "Leaf")), P(Msg(4, "optional", "Leaf")), P([F(5, "uint64", "map") EXCEPT !.kk = "string"]),
            P([Msg(20, "map", "Leaf") EXCEPT !.kk = "uint32"])>>,
   O |-> <<[oneof |-> TRUE, fs |-> <<Msg(1, "oneof", "Leaf"), F(3, "string", "oneof"), F(4, "uint64", "oneof")>>],
           P(F(2, "uint64", "single"))>>]
D(n) == [T |-> MCT, name |-> n]
Names == {"Leaf", "S1", "S2", "R1", "R2", "O"}

M1 == <<127, 127, 127, 127, 127, 127, 127, 127, 127, 1>>                   \* digits of 2^64 - 1
U32max == <<127, 127, 127, 127, 15>>
Leafs == {[k \in {1, 2} |-> IF k = 1 THEN u ELSE s] : u \in {<< >>, <<1>>}, s \in {<< >>, <<97>>}}
L0 == [k \in {1, 2} |-> << >>]
L1 == [k \in {1, 2} |-> IF k = 1 THEN <<1>> ELSE <<97>>]
\* the message value with keys ks (a sequence of entry keys) and entry values t (a tuple)
Val(ks, t) == [k \in {ks[i] : i \in DOMAIN ks} |-> t[CHOOSE i \in DOMAIN ks : ks[i] = k]]

S1Vals == {Val(<<1, 2, 3, 4>>, t) : t \in {<< >>, <<1>>} \X {<< >>, <<1>>, U32max} \X {<< >>, <<1>>, M1} \X {<< >>, <<5, 1>>, M1}}
S2Vals == {Val(<<5, 6, 7, 8>>, t) : t \in {<< >>, <<97>>, <<195, 169>>} \X {<< >>, <<255>>} \X {<< >>, <<7>>}
                                          \X {Zeros(8), <<1, 0, 0, 0, 0, 0, 0, 128>>}}
R1Vals == {Val(<<1, 2, 6, 7, 8>>, t) :
             t \in {<< >>, <<<<1>>>>, <<<<1>>, << >>>>, <<M1>>} \X {<< >>, <<<< >>>>, <<<<97>>, <<97>>>>}
                   \X {<< >>, <<<<1>>, M1>>} \X {<< >>, <<<< >>>>, <<<<255>>>>} \X {<< >>, <<1>>}}
R2Vals == {Val(<<3, 4, 5, 20>>, t) :
             t \in {<< >>, <<L0>>, <<L1, L0>>} \X {<< >>, <<L0>>, <<L1>>}
                   \X {<< >>, <<[k |-> <<97>>, v |-> <<1>>]>>, <<[k |-> << >>, v |-> << >>]>>,
                       <<[k |-> <<98>>, v |-> << >>], [k |-> <<97>>, v |-> M1]>>}
                   \X {<< >>, <<[k |-> <<3>>, v |-> L1], [k |-> << >>, v |-> L0]>>}}
OVals == {Val(<<1, 2>>, <<o, u>>) :
            o \in {<< >>} \cup {<<[tag |-> 1, val |-> x]>> : x \in {L0, L1}} \cup {<<[tag |-> 3, val |-> x]>> : x \in {<< >>, <<97>>}}
                  \cup {<<[tag |-> 4, val |-> x]>> : x \in {<< >>, <<1>>}},
            u \in {<< >>, <<1>>}}
Vals(n) == CASE n = "Leaf" -> Leafs [] n = "S1" -> S1Vals [] n = "S2" -> S2Vals [] n = "R1" -> R1Vals [] n = "R2" -> R2Vals
             [] n = "O" -> OVals

VARIABLE st
MCInit ==
  \E n \in Names :
     \/ \E v \in Vals(n) : st = [name |-> n, src |-> "value", v |-> v, bs |-> Encode(D(n), v)]
     \/ \E x \in MsgVectors(MCT, n) : st = [name |-> n, src |-> "vector", v |-> << >>, bs |-> x.bs]
MCNext ==
  LET d == Decode(D(st.name), st.bs) IN
  /\ d.ok
  /\ st' = [name |-> st.name, src |-> "canon", v |-> d.v, bs |-> Encode(D(st.name), d.v)]
MCSpec == MCInit /\ [][MCNext]_st

RoundTrip == st.src = "value" => Decode(D(st.name), st.bs) = [ok |-> TRUE, v |-> st.v]
Idem == st.src = "canon" => Canon(D(st.name), st.bs) = [ok |-> TRUE, bs |-> st.bs, why |-> ""]
SameValue == st.src = "canon" => Decode(D(st.name), st.bs) = [ok |-> TRUE, v |-> st.v]

\* ------------------------------------------------------------------ measured behaviour of prost 0.12.3
One(f) == [T |-> [X |-> <<P(f)>>, Leaf |-> MCT.Leaf], name |-> "X"]
C(f, bs) == Canon(One(f), bs)
Ok(bs) == [ok |-> TRUE, bs |-> bs, why |-> ""]
Measured ==
  /\ C(F(1, "bool", "single"), <<8, 2>>) = Ok(<<8, 1>>)                                   \* bool 2 -> true -> 1
  /\ C(F(1, "uint64", "single"), <<8, 0>>) = Ok(<< >>)                                    \* explicit default omitted
  /\ C(F(1, "string", "single"), <<10, 0>>) = Ok(<< >>)
  /\ C(F(1, "uint32", "single"), <<8>> \o Over32) = Ok(<<8, 5>>)                          \* truncation to 32 bits
  /\ C(F(1, "uint64", "single"), <<8>> \o Over32) = Ok(<<8>> \o Over32)
  /\ \A k \in {"uint64", "int64", "int32"} : C(F(1, k, "single"), <<8>> \o Minus1) = Ok(<<8>> \o Minus1)
  /\ C(F(1, "uint32", "single"), <<8>> \o Minus1) = Ok(<<8>> \o M1x5)
  /\ C(F(1, "int32", "single"), <<8>> \o M1x5) = Ok(<<8>> \o Minus1)                       \* u64 as i32 = -1, sign-extended
  /\ ~C(F(1, "string", "single"), <<10, 1, 255>>).ok                                      \* non-UTF-8
  /\ C(F(1, "bytes", "single"), <<10, 1, 255>>) = Ok(<<10, 1, 255>>)
  /\ C(F(1, "uint64", "repeated"), <<8, 1, 8, 2>>) = Ok(<<10, 2, 1, 2>>)                  \* unpacked accepted, packed emitted
  /\ C(F(1, "uint64", "repeated"), <<10, 2, 1, 2>>) = Ok(<<10, 2, 1, 2>>)
  /\ C(F(1, "string", "repeated"), <<10, 1, 98, 10, 1, 97>>) = Ok(<<10, 1, 98, 10, 1, 97>>) \* order kept, no merging
  /\ C(Msg(1, "optional", "Leaf"), <<10, 0>>) = Ok(<<10, 0>>)                              \* Some(default) kept
  /\ C(Msg(1, "optional", "Leaf"), <<10, 2, 8, 1, 10, 2, 8, 2>>) = Ok(<<10, 2, 8, 2>>)     \* merged, last scalar wins
  /\ C(Msg(1, "optional", "Leaf"), <<10, 2, 8, 1, 10, 3, 18, 1, 97>>) = Ok(<<10, 5, 8, 1, 18, 1, 97>>)
  /\ C(Msg(1, "repeated", "Leaf"), <<10, 2, 8, 1, 10, 2, 8, 2>>) = Ok(<<10, 2, 8, 1, 10, 2, 8, 2>>)
  /\ C(F(1, "enum", "single"), <<8, 7>>) = Ok(<<8, 7>>)                                    \* unknown enumeration value kept
  /\ C(F(1, "uint64", "single"), <<16, 1, 8, 3>>) = Ok(<<8, 3>>)                           \* unknown tag dropped
  /\ ~C(F(1, "uint64", "single"), <<10, 1, 1>>).ok                                         \* known tag, other wire type
  /\ ~C(F(1, "string", "single"), <<8, 1>>).ok
  /\ Canon(D("Leaf"), <<18, 1, 97, 8, 1>>) = Ok(<<8, 1, 18, 1, 97>>)                       \* re-encoded in tag order
  /\ ~C(F(1, "string", "single"), <<10, 5, 97>>).ok                                        \* truncated
  /\ ~C(F(1, "uint64", "single"), <<8, 128>>).ok
  /\ Canon(D("O"), <<16, 1, 32, 0>>) = Ok(<<32, 0, 16, 1>>)        \* a oneof is emitted at its smallest tag, default or not

\* ------------------------------------------------------------------ Vectors separates the field kinds
Separates(f, g) == \E x \in Vectors(MCT, f) : C(f, x.bs) # C(g, x.bs)
Retag(f, t) == [f EXCEPT !.tag = t]
Separation ==
  /\ Separates(F(2, "string", "single"), F(2, "bytes", "single"))
  /\ Separates(F(2, "bytes", "single"), F(2, "string", "single"))
  /\ Separates(F(2, "bool", "single"), F(2, "uint64", "single")) /\ Separates(F(2, "uint64", "single"), F(2, "bool", "single"))
  /\ Separates(F(2, "uint64", "single"), F(2, "uint32", "single")) /\ Separates(F(2, "uint32", "single"), F(2, "uint64", "single"))
  /\ Separates(F(2, "int64", "single"), F(2, "int32", "single")) /\ Separates(F(2, "int32", "single"), F(2, "int64", "single"))
  /\ Separates(F(2, "int32", "single"), F(2, "uint32", "single")) /\ Separates(F(2, "enum", "single"), F(2, "uint32", "single"))
  /\ Separates(F(2, "uint64", "single"), F(2, "uint64", "repeated")) /\ Separates(F(2, "uint64", "repeated"), F(2, "uint64", "single"))
  /\ Separates(F(2, "uint64", "repeated"), [F(2, "uint64", "repeated") EXCEPT !.packed = FALSE])
  /\ Separates(F(2, "string", "single"), F(2, "string", "repeated")) /\ Separates(F(2, "string", "repeated"), F(2, "string", "single"))
  /\ Separates(F(2, "bytes", "single"), F(2, "bytes", "optional")) /\ Separates(F(2, "bytes", "optional"), F(2, "bytes", "single"))
  /\ Separates(Msg(2, "optional", "Leaf"), Msg(2, "repeated", "Leaf")) /\ Separates(Msg(2, "repeated", "Leaf"), Msg(2, "optional", "Leaf"))
  /\ Separates(Msg(2, "optional", "Leaf"), F(2, "bytes", "single")) /\ Separates(F(2, "bytes", "single"), Msg(2, "optional", "Leaf"))
  /\ Separates(Msg(2, "optional", "Leaf"), F(2, "string", "single"))
  /\ Separates(F(2, "uint64", "single"), F(2, "fixed64", "single")) /\ Separates(F(2, "string", "single"), F(2, "uint64", "single"))
  /\ \A k \in {"bool", "uint32", "int32", "uint64", "enum", "string", "bytes", "fixed64"}, c \in {"single", "optional", "repeated"} :
        Separates(F(2, k, c), Retag(F(2, k, c), 4))                                     \* a changed tag
  /\ Separates(Msg(2, "optional", "Leaf"), Retag(Msg(2, "optional", "Leaf"), 4))
  /\ Separates(Msg(2, "repeated", "Leaf"), Retag(Msg(2, "repeated", "Leaf"), 4))

ASSUME Measured
ASSUME Separation
=============================================================================
