SPECIFICATION GSpec
POSTCONDITION Done
CHECK_DEADLOCK FALSE
