SPECIFICATION MCSpec
INVARIANT RoundTrip
INVARIANT Idem
INVARIANT SameValue
CHECK_DEADLOCK FALSE
