------------------------------ MODULE ProtoGen ------------------------------
(***************************************************************************)
(* Test-vector generation: for every line {fq, T} of the descriptor file   *)
(* (environment variable DESCS) print the vectors MsgVectors(T, fq) of     *)
(* ProtoWire.  One state per line, as in ProtoTrace.                       *)
(***************************************************************************)
EXTENDS ProtoWire, Json, IOUtils

Rec == ndJsonDeserialize(IOEnv.DESCS)
VARIABLE l
GInit == l = 1
GNext ==
  /\ l <= Len(Rec)
  /\ PrintT("VEC " \o ToJson([fq |-> Rec[l].fq, vec |-> MsgVectors(Rec[l].T, Rec[l].fq)]))
  /\ l' = l + 1
GSpec == GInit /\ [][GNext]_l
Done ==
  IF TLCGet("stats").diameter - 1 = Len(Rec) THEN PrintT("DESCS-CONSUMED " \o ToString(Len(Rec)))
  ELSE PrintT("DESCS-STUCK at line " \o ToString(TLCGet("stats").diameter)) /\ FALSE
=============================================================================
