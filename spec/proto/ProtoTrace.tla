----------------------------- MODULE ProtoTrace -----------------------------
(***************************************************************************)
(* Conformance of the REAL bindings with the specification ProtoWire.      *)
(* Every line of the observation file (environment variable TRACE, written *)
(* by tools/c20check.py from the output of protoharness) is one record:    *)
(*                                                                         *)
(*  t = "msg": one message type.  T: the ORACLE descriptor table (baseline *)
(*     or, for a new message, current sources), cur / base: the entries of *)
(*     the message as extracted now / in the baseline, R + rname: the      *)
(*     descriptor table of the independently generated type (hasref), and  *)
(*     vec: for every vector b what the real code did: ok, c = re-encoding *)
(*     of the decoded value, rt = decode(c) gives the same value and       *)
(*     re-encodes to c; rok / rc / rrt the same through the reference.     *)
(*     Decided here:                                                       *)
(*       baseline    cur differs from base in any field                    *)
(*       reference   a field of the reference is not carried identically   *)
(*       verdict     real code accepts what Decode refuses, or vice versa  *)
(*       canon       re-encoding differs from Canon of the specification   *)
(*       roundtrip   encode-then-decode is not the identity on the value   *)
(*       crossencode the specification gives both descriptors the same     *)
(*                   canonical form for b, the two code bases differ       *)
(*       refmodel    the reference code contradicts the specification      *)
(*                   under the reference descriptor                        *)
(*       removed     a message of the baseline no longer exists            *)
(*  t = "url": one registered TYPE_URL (fq from the include! tree and the  *)
(*     file name, never from the URL): url = "/" \o fq, Any round trips on *)
(*     the default and on a non-default value, no other registered URL     *)
(*     and no mangled URL accepted, the own URL accepted.                  *)
(*  t = "enum": numbers of enumeration values against baseline/reference.  *)
(*                                                                         *)
(* The behaviour has one state per line; findings are printed, acceptance  *)
(* is that every line was consumed.                                        *)
(***************************************************************************)
EXTENDS ProtoWire, Json, IOUtils

Rec == ndJsonDeserialize(IOEnv.TRACE)
NLines == Len(Rec)
R1(c, x) == IF c THEN {x} ELSE {}

VecFindings(r, x) ==
  LET c == Canon([T |-> r.T, name |-> r.fq], x.b)
      F(kind) == [i |-> r.i, fq |-> r.fq, kind |-> kind, id |-> x.id, want |-> ""]
      own == IF c.ok # x.ok THEN {[F("verdict") EXCEPT !.kind = IF x.ok THEN "verdict:accepted" ELSE "verdict:refused"]}
             ELSE R1(c.ok /\ c.bs # x.c, F("canon")) \cup R1(x.ok /\ ~x.rt, F("roundtrip"))
      ref == IF ~r.hasref THEN {}
             ELSE LET rc == Canon([T |-> r.R, name |-> r.rname], x.b) IN
                  R1(rc.ok # x.rok \/ (rc.ok /\ rc.bs # x.rc) \/ (x.rok /\ ~x.rrt), F("refmodel"))
                  \cup R1(rc.ok = c.ok /\ rc.bs = c.bs /\ (x.ok # x.rok \/ x.c # x.rc), F("crossencode"))
  IN own \cup ref

MsgFindings(r) ==
  LET F(kind) == [i |-> r.i, fq |-> r.fq, kind |-> kind, id |-> "", want |-> ""] IN
  IF ~r.incur THEN {F("removed")}
  ELSE (IF r.inbase THEN {[F("baseline") EXCEPT !.id = "tag" \o ToString(d.tag)] : d \in DescDiff(r.base, r.cur)} ELSE {})
       \cup R1(~TagsUnique(r.cur), F("duplicate-tag"))
       \cup (IF r.hasref THEN {[F("reference") EXCEPT !.id = "tag" \o ToString(d.tag)] :
                                 d \in Incompatible(r.R[r.rname], r.cur, {r.benign[k] : k \in DOMAIN r.benign})}
             ELSE {})
       \cup UNION {VecFindings(r, r.vec[k]) : k \in DOMAIN r.vec}

UrlFindings(r) ==
  LET F(kind) == [i |-> r.i, fq |-> r.fq, kind |-> kind, id |-> r.url, want |-> "/" \o r.fq] IN
  R1(r.url # "/" \o r.fq, F("url"))
  \cup R1(r.any_url # r.url, F("any-url"))
  \cup R1(~r.rt_default, F("any-roundtrip-default"))
  \cup R1(~r.rt_value, F("any-roundtrip-value"))
  \cup R1(~r.nondefault /\ r.nfields > 0, F("no-nondefault-value"))
  \cup R1(~r.own_accepted, F("own-url-refused"))
  \cup R1(r.foreign_tried # r.registered - 1, F("foreign-not-all-tried"))
  \cup R1(r.foreign_accepted # << >>, F("foreign-url-accepted"))
  \cup R1(r.mangled_accepted # << >>, F("mangled-url-accepted"))

\* every value of the baseline keeps its number (new values are fine); a value name that also exists in the
\* reference has the reference's number (value sets differ between protobuf versions, which the wire does not see)
NumOf(vals, n) == {vals[k].num : k \in {k \in DOMAIN vals : vals[k].name = n}}
EnumFindings(r) ==
  LET F(kind, id) == [i |-> r.i, fq |-> r.fq, kind |-> kind, id |-> id, want |-> ""] IN
  IF ~r.incur THEN {F("enum-removed", "")}
  ELSE (IF r.inbase THEN {F("enum-baseline", r.base[k].name) : k \in {k \in DOMAIN r.base : NumOf(r.cur, r.base[k].name) # {r.base[k].num}}} ELSE {})
       \cup (IF r.hasref THEN {F("enum-reference", r.ref[k].name) : k \in {k \in DOMAIN r.ref : NumOf(r.cur, r.ref[k].name) \notin {{}, {r.ref[k].num}}}} ELSE {})

Findings(l) ==
  LET r == Rec[l] IN
  CASE r.t = "msg" -> MsgFindings(r)
    [] r.t = "url" -> UrlFindings(r)
    [] r.t = "enum" -> EnumFindings(r)

VARIABLES l, nfind
TInit == l = 1 /\ nfind = 0
TNext ==
  /\ l <= NLines
  /\ LET F == Findings(l) IN
       /\ nfind' = nfind + Cardinality(F)
       /\ IF F = {} THEN TRUE ELSE PrintT("FINDING " \o ToJson([fs |-> F]))
  /\ l' = l + 1
TSpec == TInit /\ [][TNext]_<<l, nfind>>

Accepted ==
  IF TLCGet("stats").diameter - 1 = NLines THEN PrintT("TRACE-CONSUMED " \o ToString(NLines))
  ELSE PrintT("TRACE-STUCK at line " \o ToString(TLCGet("stats").diameter)) /\ FALSE
=============================================================================
