----------------------------- MODULE ProtoWire -----------------------------
(***************************************************************************)
(* The protobuf wire format as bound by prost 0.12 (derive(Message)),      *)
(* restricted to what occurs in packages/initia-proto and the crates it    *)
(* borrows messages from.  Bytes are numbers 0..255, encodings sequences   *)
(* of bytes.                                                               *)
(*                                                                         *)
(* DESCRIPTORS.  A table Tb maps the fully-qualified name of a message to  *)
(* its ENTRIES, in the order prost-derive emits them (ascending smallest   *)
(* tag).  An entry [oneof, fs] holds one field (oneof = FALSE, Len(fs) = 1)*)
(* or the variants of a oneof, ascending by tag.  A field is               *)
(*   [tag, kind, card, ty, kk, packed]                                     *)
(*   kind: bool int32 int64 uint32 uint64 sint32 sint64 enum               *)
(*         fixed32 sfixed32 float fixed64 sfixed64 double                  *)
(*         string bytes message                                            *)
(*   card: single | optional | required | repeated | map | oneof           *)
(*   ty  : name of the message type (kind = message), kk: map key kind,    *)
(*   packed: FALSE only for `packed = "false"` repeated numerics.          *)
(* A descriptor D is [T |-> table, name |-> root message].                 *)
(*                                                                         *)
(* VALUES.  TLC integers have 32 bits, protobuf integers 64, so a varint   *)
(* scalar is represented by its canonical little-endian base-128 digits    *)
(* (no trailing zero digit, << >> is zero, the tenth digit is at most 1):  *)
(* exactly the payload of its minimal varint.  All 64-bit behaviours       *)
(* (truncation to 32 bits, sign extension of int32 / enumerations, the     *)
(* ten-byte -1) are digit manipulations.  string / bytes / fixed scalars   *)
(* are their raw bytes.  optional = sequence of length <= 1, repeated =    *)
(* sequence, map = sequence of [k, v] in order of first insertion, oneof = *)
(* << >> or <<[tag, val]>>.  A message value is a function (the "record    *)
(* keyed by tag") from the smallest tag of each entry to the entry value.  *)
(***************************************************************************)
EXTENDS Naturals, Sequences, FiniteSets, TLC

VarintKinds == {"bool", "int32", "int64", "uint32", "uint64", "sint32", "sint64", "enum"}
Fixed32Kinds == {"fixed32", "sfixed32", "float"}
Fixed64Kinds == {"fixed64", "sfixed64", "double"}
NumericKinds == VarintKinds \cup Fixed32Kinds \cup Fixed64Kinds
LenKinds == {"string", "bytes", "message"}

WT(kind) == IF kind \in VarintKinds THEN 0 ELSE IF kind \in Fixed64Kinds THEN 1
            ELSE IF kind \in Fixed32Kinds THEN 5 ELSE 2
Width(kind) == IF kind \in Fixed64Kinds THEN 8 ELSE 4
Zeros(n) == [i \in 1..n |-> 0]

Fail(why) == [ok |-> FALSE, why |-> why]

\* ------------------------------------------------------------------ varints as digit sequences
RECURSIVE Trim(_)
Trim(g) == IF g = << >> THEN g ELSE IF g[Len(g)] = 0 THEN Trim(SubSeq(g, 1, Len(g) - 1)) ELSE g

RECURSIVE Digits(_)
Digits(n) == IF n = 0 THEN << >> ELSE <<n % 128>> \o Digits(n \div 128)      \* n < 2^31

EncVar(g) == IF g = << >> THEN <<0>> ELSE [i \in 1..Len(g) |-> IF i < Len(g) THEN g[i] + 128 ELSE g[i]]

Dig(g, i) == IF i <= Len(g) THEN g[i] ELSE 0
Small(g) == Len(g) <= 4                                                      \* value < 2^28
Num(g) == Dig(g, 1) + 128 * Dig(g, 2) + 16384 * Dig(g, 3) + 2097152 * Dig(g, 4)

\* the varint starting at bs[i]: at most ten bytes, the tenth at most 1 (prost: "invalid varint" otherwise)
RECURSIVE VarintAt(_, _, _)
VarintAt(bs, i, acc) ==
  IF i > Len(bs) THEN Fail("varint truncated")
  ELSE LET b == bs[i] IN
       IF Len(acc) = 9 THEN (IF b >= 2 THEN Fail("varint overflows 64 bits")
                             ELSE [ok |-> TRUE, g |-> Trim(Append(acc, b)), nx |-> i + 1])
       ELSE IF b < 128 THEN [ok |-> TRUE, g |-> Trim(Append(acc, b)), nx |-> i + 1]
       ELSE VarintAt(bs, i + 1, Append(acc, b - 128))

\* what a decoded 64-bit varint becomes in a field of the given kind (Rust `as` casts), again as canonical digits
Low32(g) == <<Dig(g, 1), Dig(g, 2), Dig(g, 3), Dig(g, 4), Dig(g, 5) % 16>>
Norm(kind, g) ==
  CASE kind = "bool" -> IF g = << >> THEN << >> ELSE <<1>>
    [] kind \in {"uint32", "sint32"} -> Trim(Low32(g))
    [] kind \in {"int32", "enum"} ->
         IF Dig(g, 5) % 16 >= 8                                              \* bit 31: negative, sign-extended
         THEN <<Dig(g, 1), Dig(g, 2), Dig(g, 3), Dig(g, 4), (Dig(g, 5) % 16) + 112, 127, 127, 127, 127, 1>>
         ELSE Trim(Low32(g))
    [] OTHER -> g

\* ------------------------------------------------------------------ keys, lengths, UTF-8
Key(tag, wt) == EncVar(Digits(tag * 8 + wt))                                 \* tag < 2^28
LenPrefix(bs) == EncVar(Digits(Len(bs))) \o bs

KeyAt(bs, i) ==
  LET r == VarintAt(bs, i, << >>) IN
  IF ~r.ok THEN r
  ELSE LET g == r.g
           wt == Dig(g, 1) % 8
           tag == (Dig(g, 1) \div 8) + 16 * Dig(g, 2) + 2048 * Dig(g, 3) + 262144 * Dig(g, 4) + 33554432 * Dig(g, 5)
       IN IF Len(g) > 5 \/ Dig(g, 5) >= 16 THEN Fail("key exceeds 32 bits")
          ELSE IF wt > 5 THEN Fail("invalid wire type")
          ELSE IF tag = 0 THEN Fail("tag 0")
          ELSE [ok |-> TRUE, tag |-> tag, wt |-> wt, nx |-> r.nx]

\* a length-delimited payload starting at bs[i]: [ok, lo, hi, nx] with the payload bs[lo..hi]
LenAt(bs, i) ==
  LET r == VarintAt(bs, i, << >>) IN
  IF ~r.ok THEN r
  ELSE IF ~Small(r.g) \/ r.nx - 1 + Num(r.g) > Len(bs) THEN Fail("buffer underflow")
  ELSE [ok |-> TRUE, lo |-> r.nx, hi |-> r.nx - 1 + Num(r.g), nx |-> r.nx + Num(r.g)]

\* Rust's str::from_utf8: shortest forms only, no surrogates, at most U+10FFFF
Cont(bs, i, lo, hi) == i <= Len(bs) /\ bs[i] >= lo /\ bs[i] <= hi
RECURSIVE Utf8From(_, _)
Utf8From(bs, i) ==
  IF i > Len(bs) THEN TRUE
  ELSE LET b == bs[i] IN
    IF b < 128 THEN Utf8From(bs, i + 1)
    ELSE IF b >= 194 /\ b <= 223 THEN Cont(bs, i + 1, 128, 191) /\ Utf8From(bs, i + 2)
    ELSE IF b = 224 THEN Cont(bs, i + 1, 160, 191) /\ Cont(bs, i + 2, 128, 191) /\ Utf8From(bs, i + 3)
    ELSE IF (b >= 225 /\ b <= 236) \/ b = 238 \/ b = 239
         THEN Cont(bs, i + 1, 128, 191) /\ Cont(bs, i + 2, 128, 191) /\ Utf8From(bs, i + 3)
    ELSE IF b = 237 THEN Cont(bs, i + 1, 128, 159) /\ Cont(bs, i + 2, 128, 191) /\ Utf8From(bs, i + 3)
    ELSE IF b = 240 THEN Cont(bs, i + 1, 144, 191) /\ Cont(bs, i + 2, 128, 191) /\ Cont(bs, i + 3, 128, 191) /\ Utf8From(bs, i + 4)
    ELSE IF b >= 241 /\ b <= 243
         THEN Cont(bs, i + 1, 128, 191) /\ Cont(bs, i + 2, 128, 191) /\ Cont(bs, i + 3, 128, 191) /\ Utf8From(bs, i + 4)
    ELSE IF b = 244 THEN Cont(bs, i + 1, 128, 143) /\ Cont(bs, i + 2, 128, 191) /\ Cont(bs, i + 3, 128, 191) /\ Utf8From(bs, i + 4)
    ELSE FALSE
Utf8(bs) == Utf8From(bs, 1)

\* ------------------------------------------------------------------ descriptors
Entries(T, name) == T[name]
EKey(e) == e.fs[1].tag
Keys(T, name) == {EKey(Entries(T, name)[i]) : i \in DOMAIN Entries(T, name)}
\* <<entry index, variant index>> of the field with this tag, or << >>
Find(es, tag) ==
  LET S == UNION {{<<i, j>> : j \in {j \in DOMAIN es[i].fs : es[i].fs[j].tag = tag}} : i \in DOMAIN es}
  IN IF S = {} THEN << >> ELSE CHOOSE p \in S : TRUE
MaxTag(es) == LET S == UNION {{es[i].fs[j].tag : j \in DOMAIN es[i].fs} : i \in DOMAIN es}
              IN IF S = {} THEN 0 ELSE CHOOSE t \in S : \A u \in S : u <= t

ScalarDefault(f) == IF f.kind \in Fixed32Kinds \cup Fixed64Kinds THEN Zeros(Width(f.kind)) ELSE << >>
EntryDefault(e) == IF e.oneof \/ e.fs[1].card \notin {"single", "required"} \/ e.fs[1].kind = "message"
                   THEN << >> ELSE ScalarDefault(e.fs[1])
DefaultMsg(T, name) == [k \in Keys(T, name) |-> EntryDefault(CHOOSE e \in {Entries(T, name)[i] : i \in DOMAIN Entries(T, name)} : EKey(e) = k)]

\* ------------------------------------------------------------------ decoding (prost's merge)
\* one scalar of `kind` at bs[i], announced with wire type wt: [ok, x, nx]
ScalarAt(kind, wt, bs, i) ==
  IF wt # WT(kind) THEN Fail("wire type")
  ELSE IF kind \in VarintKinds
  THEN LET r == VarintAt(bs, i, << >>) IN IF r.ok THEN [ok |-> TRUE, x |-> Norm(kind, r.g), nx |-> r.nx] ELSE r
  ELSE IF kind \in Fixed32Kinds \cup Fixed64Kinds
  THEN LET w == Width(kind) IN
       IF i + w - 1 > Len(bs) THEN Fail("buffer underflow") ELSE [ok |-> TRUE, x |-> SubSeq(bs, i, i + w - 1), nx |-> i + w]
  ELSE LET r == LenAt(bs, i) IN
       IF ~r.ok THEN r
       ELSE LET p == SubSeq(bs, r.lo, r.hi) IN
            IF kind = "string" /\ ~Utf8(p) THEN Fail("invalid utf-8") ELSE [ok |-> TRUE, x |-> p, nx |-> r.nx]

\* the scalars of a packed payload
RECURSIVE PackedFrom(_, _, _, _)
PackedFrom(kind, bs, i, acc) ==
  IF i > Len(bs) THEN [ok |-> TRUE, xs |-> acc]
  ELSE LET r == ScalarAt(kind, WT(kind), bs, i) IN IF r.ok THEN PackedFrom(kind, bs, r.nx, Append(acc, r.x)) ELSE r

\* an unknown field is skipped according to its wire type; a group is skipped up to its matching end-group key
RECURSIVE SkipAt(_, _, _, _)
RECURSIVE SkipGroup(_, _, _)
SkipGroup(tag, bs, i) ==
  LET h == KeyAt(bs, i) IN
  IF ~h.ok THEN h
  ELSE IF h.wt = 4 THEN (IF h.tag = tag THEN [ok |-> TRUE, nx |-> h.nx] ELSE Fail("unexpected end group"))
  ELSE LET s == SkipAt(h.wt, h.tag, bs, h.nx) IN IF s.ok THEN SkipGroup(tag, bs, s.nx) ELSE s
SkipAt(wt, tag, bs, i) ==
  CASE wt = 0 -> (LET r == VarintAt(bs, i, << >>) IN IF r.ok THEN [ok |-> TRUE, nx |-> r.nx] ELSE r)
    [] wt = 1 -> IF i + 7 > Len(bs) THEN Fail("buffer underflow") ELSE [ok |-> TRUE, nx |-> i + 8]
    [] wt = 5 -> IF i + 3 > Len(bs) THEN Fail("buffer underflow") ELSE [ok |-> TRUE, nx |-> i + 4]
    [] wt = 2 -> (LET r == LenAt(bs, i) IN IF r.ok THEN [ok |-> TRUE, nx |-> r.nx] ELSE r)
    [] wt = 3 -> SkipGroup(tag, bs, i)
    [] OTHER -> Fail("unexpected end group")

SetKey(seq, k, v) ==      \* map insert: an existing key keeps its position, the value is replaced
  IF \E i \in DOMAIN seq : seq[i].k = k
  THEN [i \in DOMAIN seq |-> IF seq[i].k = k THEN [k |-> k, v |-> v] ELSE seq[i]]
  ELSE Append(seq, [k |-> k, v |-> v])

RECURSIVE MergeFrom(_, _, _, _, _)
\* one map entry: fields 1 (key) and 2 (value) merged into [k, v], anything else skipped
RECURSIVE MapEntryFrom(_, _, _, _, _)
MapEntryFrom(T, f, kv, bs, i) ==
  IF i > Len(bs) THEN [ok |-> TRUE, kv |-> kv]
  ELSE LET h == KeyAt(bs, i) IN
    IF ~h.ok THEN h
    ELSE IF h.tag = 1
    THEN LET r == ScalarAt(f.kk, h.wt, bs, h.nx) IN
         IF r.ok THEN MapEntryFrom(T, f, [kv EXCEPT !.k = r.x], bs, r.nx) ELSE r
    ELSE IF h.tag = 2
    THEN IF f.kind = "message"
         THEN IF h.wt # 2 THEN Fail("wire type")
              ELSE LET r == LenAt(bs, h.nx) IN
                   IF ~r.ok THEN r
                   ELSE LET m == MergeFrom(T, f.ty, kv.v, SubSeq(bs, r.lo, r.hi), 1) IN
                        IF m.ok THEN MapEntryFrom(T, f, [kv EXCEPT !.v = m.v], bs, r.nx) ELSE m
         ELSE LET r == ScalarAt(f.kind, h.wt, bs, h.nx) IN
              IF r.ok THEN MapEntryFrom(T, f, [kv EXCEPT !.v = r.x], bs, r.nx) ELSE r
    ELSE LET s == SkipAt(h.wt, h.tag, bs, h.nx) IN IF s.ok THEN MapEntryFrom(T, f, kv, bs, s.nx) ELSE s

MapValDefault(T, f) == IF f.kind = "message" THEN DefaultMsg(T, f.ty) ELSE ScalarDefault(f)
MapKeyDefault(f) == ScalarDefault([kind |-> f.kk])

\* the field f (entry e, current entry value cur) announced with wire type wt at bs[i]: [ok, val, nx]
FieldAt(T, e, f, cur, wt, bs, i) ==
  IF f.card = "map"
  THEN IF wt # 2 THEN Fail("wire type")
       ELSE LET r == LenAt(bs, i) IN
            IF ~r.ok THEN r
            ELSE LET m == MapEntryFrom(T, f, [k |-> MapKeyDefault(f), v |-> MapValDefault(T, f)], SubSeq(bs, r.lo, r.hi), 1) IN
                 IF m.ok THEN [ok |-> TRUE, val |-> SetKey(cur, m.kv.k, m.kv.v), nx |-> r.nx] ELSE m
  ELSE IF f.kind = "message"
  THEN IF wt # 2 THEN Fail("wire type")
       ELSE LET r == LenAt(bs, i) IN
            IF ~r.ok THEN r
            ELSE LET into == \* an optional / same-variant message that is already present is merged into
                       IF f.card = "repeated" THEN DefaultMsg(T, f.ty)
                       ELSE IF f.card = "oneof" THEN (IF cur # << >> /\ cur[1].tag = f.tag THEN cur[1].val ELSE DefaultMsg(T, f.ty))
                       ELSE IF f.card = "optional" THEN (IF cur # << >> THEN cur[1] ELSE DefaultMsg(T, f.ty))
                       ELSE cur
                     m == MergeFrom(T, f.ty, into, SubSeq(bs, r.lo, r.hi), 1)
                 IN IF ~m.ok THEN m
                    ELSE [ok |-> TRUE, nx |-> r.nx,
                          val |-> CASE f.card = "repeated" -> Append(cur, m.v)
                                    [] f.card = "oneof" -> <<[tag |-> f.tag, val |-> m.v]>>
                                    [] f.card = "optional" -> <<m.v>>
                                    [] OTHER -> m.v]
  ELSE IF f.card = "repeated" /\ f.kind \in NumericKinds /\ wt = 2
  THEN LET r == LenAt(bs, i) IN                          \* packed, accepted whatever the declared packing
       IF ~r.ok THEN r
       ELSE LET p == PackedFrom(f.kind, SubSeq(bs, r.lo, r.hi), 1, << >>) IN
            IF p.ok THEN [ok |-> TRUE, val |-> cur \o p.xs, nx |-> r.nx] ELSE p
  ELSE LET r == ScalarAt(f.kind, wt, bs, i) IN
       IF ~r.ok THEN r
       ELSE [ok |-> TRUE, nx |-> r.nx,
             val |-> CASE f.card = "repeated" -> Append(cur, r.x)
                       [] f.card = "oneof" -> <<[tag |-> f.tag, val |-> r.x]>>
                       [] f.card = "optional" -> <<r.x>>
                       [] OTHER -> r.x]

\* merge the fields encoded in bs[i..] into the message value acc of type `name`
MergeFrom(T, name, acc, bs, i) ==
  IF i > Len(bs) THEN [ok |-> TRUE, v |-> acc]
  ELSE LET h == KeyAt(bs, i) IN
    IF ~h.ok THEN h
    ELSE LET es == Entries(T, name)
             p == Find(es, h.tag)
         IN IF p = << >>
            THEN LET s == SkipAt(h.wt, h.tag, bs, h.nx) IN IF s.ok THEN MergeFrom(T, name, acc, bs, s.nx) ELSE s
            ELSE LET e == es[p[1]]
                     r == FieldAt(T, e, e.fs[p[2]], acc[EKey(e)], h.wt, bs, h.nx)
                 IN IF r.ok THEN MergeFrom(T, name, [acc EXCEPT ![EKey(e)] = r.val], bs, r.nx) ELSE r

Decode(D, bs) == MergeFrom(D.T, D.name, DefaultMsg(D.T, D.name), bs, 1)

\* ------------------------------------------------------------------ encoding
RECURSIVE Flat(_)
Flat(ss) == IF ss = << >> THEN << >> ELSE ss[1] \o Flat(Tail(ss))

RECURSIVE EncMsg(_, _, _)
Payload(T, f, x) ==
  IF f.kind \in VarintKinds THEN EncVar(x)
  ELSE IF f.kind \in Fixed32Kinds \cup Fixed64Kinds THEN x
  ELSE IF f.kind = "message" THEN LenPrefix(EncMsg(T, f.ty, x))
  ELSE LenPrefix(x)
EncOne(T, f, x) == Key(f.tag, WT(f.kind)) \o Payload(T, f, x)
EncMapEntry(T, f, kv) ==
  LET kf == [tag |-> 1, kind |-> f.kk, ty |-> ""]
      vf == [tag |-> 2, kind |-> f.kind, ty |-> f.ty]
  IN Key(f.tag, 2) \o LenPrefix((IF kv.k = MapKeyDefault(f) THEN << >> ELSE EncOne(T, kf, kv.k))
                              \o (IF kv.v = MapValDefault(T, f) THEN << >> ELSE EncOne(T, vf, kv.v)))
EncEntry(T, e, val) ==
  IF e.oneof
  THEN IF val = << >> THEN << >>                        \* the set variant is always emitted, default or not
       ELSE EncOne(T, CHOOSE f \in {e.fs[j] : j \in DOMAIN e.fs} : f.tag = val[1].tag, val[1].val)
  ELSE LET f == e.fs[1] IN
    CASE f.card = "single" -> IF val = ScalarDefault(f) THEN << >> ELSE EncOne(T, f, val)
      [] f.card = "required" -> EncOne(T, f, val)
      [] f.card = "optional" -> IF val = << >> THEN << >> ELSE EncOne(T, f, val[1])
      [] f.card = "map" -> Flat([i \in DOMAIN val |-> EncMapEntry(T, f, val[i])])
      [] OTHER -> \* repeated
           IF f.kind \in NumericKinds /\ f.packed
           THEN IF val = << >> THEN << >>
                ELSE Key(f.tag, 2) \o LenPrefix(Flat([i \in DOMAIN val |-> IF f.kind \in VarintKinds THEN EncVar(val[i]) ELSE val[i]]))
           ELSE Flat([i \in DOMAIN val |-> EncOne(T, f, val[i])])
EncMsg(T, name, v) == LET es == Entries(T, name) IN Flat([i \in DOMAIN es |-> EncEntry(T, es[i], v[EKey(es[i])])])

Encode(D, v) == EncMsg(D.T, D.name, v)

\* decode, then encode again: the canonical re-encoding (or the error verdict)
Canon(D, bs) ==
  LET d == Decode(D, bs) IN
  IF d.ok THEN [ok |-> TRUE, bs |-> Encode(D, d.v), why |-> ""] ELSE [ok |-> FALSE, bs |-> << >>, why |-> d.why]

\* ------------------------------------------------------------------ discriminating test vectors
(***************************************************************************)
(* Vectors(T, f): byte strings exercising field f alone; each is a whole   *)
(* message encoding.  What they separate (expected verdicts come from      *)
(* Canon, i.e. from the definitions above, never from this section):       *)
(*   one/two        bool (2 -> 1) from the integers                        *)
(*   over32, m1x5   32-bit from 64-bit kinds (2^32+5 -> 5), int32/enum     *)
(*                  (2^32-1 -> ten bytes) from uint32 and the 64-bit kinds *)
(*   neg            the ten-byte -1                                        *)
(*   twice, packed  single / optional (last wins, packed refused) from     *)
(*                  repeated (both kept, re-encoded packed)                *)
(*   nonutf8, utf8bad   string from bytes                                  *)
(*   empty          implicit presence (dropped) from optional / repeated / *)
(*                  oneof (kept)                                           *)
(*   merge, twice0  optional message (merged) from repeated (kept apart)   *)
(*   wt, trunc, over    a changed wire type, truncation, 11-byte varint    *)
(* A changed TAG turns every vector of the field into unknown-field input: *)
(* accepted and dropped, which differs from each canonical form above      *)
(* except the dropped defaults.                                            *)
(***************************************************************************)
V(id, bs) == [id |-> id, bs |-> bs]
Minus1 == <<255, 255, 255, 255, 255, 255, 255, 255, 255, 1>>
Over32 == <<133, 128, 128, 128, 16>>                                          \* 2^32 + 5
M1x5 == <<255, 255, 255, 255, 15>>                                            \* 2^32 - 1

\* first scalar field of a message type that a vector can fill in (<< >> if none or the type is not in the table)
SimpleOf(T, ty) ==
  IF ty \notin DOMAIN T THEN << >>
  ELSE LET es == T[ty]
           S == {i \in DOMAIN es : ~es[i].oneof /\ es[i].fs[1].card = "single"
                                    /\ es[i].fs[1].kind \in {"uint64", "int64", "uint32", "int32", "string", "bytes"}}
       IN IF S = {} THEN << >> ELSE <<es[CHOOSE i \in S : \A j \in S : i <= j].fs[1]>>
\* two distinct non-default encodings of a simple field
Inner(T, c, n) == IF c.kind \in {"string", "bytes"} THEN EncOne(T, c, <<96 + n>>) ELSE EncOne(T, c, <<n>>)

ScalarVectors(f) ==
  LET k0 == Key(f.tag, 0)  k1 == Key(f.tag, 1)  k2 == Key(f.tag, 2)  k5 == Key(f.tag, 5) IN
  IF f.kind \in VarintKinds
  THEN {V("one", k0 \o <<1>>), V("two", k0 \o <<2>>), V("zero", k0 \o <<0>>), V("over32", k0 \o Over32),
        V("neg", k0 \o Minus1), V("m1x5", k0 \o M1x5), V("nonmin", k0 \o <<129, 0>>),
        V("twice", k0 \o <<1>> \o k0 \o <<3>>), V("packed", k2 \o <<2, 1, 2>>), V("packed0", k2 \o <<0>>),
        V("wt", k5 \o <<1, 0, 0, 0>>), V("trunc", k0 \o <<128>>), V("over", k0 \o [i \in 1..10 |-> 255] \o <<1>>),
        V("ptrunc", k2 \o <<2, 1, 128>>)}
  ELSE IF f.kind \in Fixed32Kinds \cup Fixed64Kinds
  THEN LET w == Width(f.kind)  k == IF w = 8 THEN k1 ELSE k5
           one == [i \in 1..w |-> IF i = 1 THEN 1 ELSE 0]  top == [i \in 1..w |-> IF i = w THEN 128 ELSE 0] IN
       {V("one", k \o one), V("zero", k \o Zeros(w)), V("top", k \o top), V("twice", k \o one \o k \o top),
        V("packed", k2 \o <<w>> \o one), V("wt", k0 \o <<1>>), V("trunc", k \o <<1>>)}
  ELSE \* string, bytes
       {V("abc", k2 \o <<3, 97, 98, 99>>), V("nonutf8", k2 \o <<1, 255>>), V("utf8", k2 \o <<2, 195, 169>>),
        V("utf8bad", k2 \o <<2, 192, 128>>), V("empty", k2 \o <<0>>), V("twice", k2 \o <<1, 97>> \o k2 \o <<1, 98>>),
        V("wt", k0 \o <<1>>), V("trunc", k2 \o <<5, 97>>), V("hugelen", k2 \o <<128, 128, 128, 128, 1>>)}

MessageVectors(T, f) ==
  LET k0 == Key(f.tag, 0)  k2 == Key(f.tag, 2)  c == SimpleOf(T, f.ty)
      ut == IF f.ty \in DOMAIN T THEN MaxTag(T[f.ty]) + 1 ELSE 1 IN
  {V("empty", k2 \o <<0>>), V("twice0", k2 \o <<0>> \o k2 \o <<0>>), V("wt", k0 \o <<1>>), V("trunc", k2 \o <<5>>)}
  \cup (IF f.ty \in DOMAIN T THEN {V("inunk", k2 \o LenPrefix(Key(ut, 0) \o <<1>>)), V("inbadkey", k2 \o <<1, 0>>)} ELSE {})
  \cup (IF c = << >> THEN {}
        ELSE LET p1 == Inner(T, c[1], 1)  p2 == Inner(T, c[1], 2) IN
             {V("inner", k2 \o LenPrefix(p1)), V("merge", k2 \o LenPrefix(p1) \o k2 \o LenPrefix(p2)),
              V("inwt", k2 \o LenPrefix(Key(c[1].tag, 5) \o <<1, 0, 0, 0>>)),
              V("intrunc", k2 \o LenPrefix(SubSeq(p1, 1, Len(p1) - 1)))})

MapVectors(T, f) ==
  LET k0 == Key(f.tag, 0)  k2 == Key(f.tag, 2)
      kf == [tag |-> 1, kind |-> f.kk, ty |-> ""]
      vf == [tag |-> 2, kind |-> f.kind, ty |-> f.ty]
      ka == IF f.kk \in {"string", "bytes"} THEN EncOne(T, kf, <<97>>) ELSE EncOne(T, kf, <<1>>)
      val(n) == IF f.kind = "message" THEN (IF n = 1 THEN << >> ELSE Key(2, 2) \o <<0>>)
                ELSE IF f.kind \in {"string", "bytes"} THEN EncOne(T, vf, <<96 + n>>)
                ELSE IF f.kind \in VarintKinds THEN EncOne(T, vf, <<n>>) ELSE << >> IN
  {V("entry", k2 \o LenPrefix(ka \o val(2))), V("dupkey", k2 \o LenPrefix(ka \o val(1)) \o k2 \o LenPrefix(ka \o val(2))),
   V("defaults", k2 \o <<0>>), V("swapped", k2 \o LenPrefix(val(2) \o ka)), V("wt", k0 \o <<1>>), V("trunc", k2 \o <<3, 10>>),
   V("entryunk", k2 \o LenPrefix(ka \o Key(3, 0) \o <<1>>))}

Vectors(T, f) ==
  IF f.card = "map" THEN MapVectors(T, f)
  ELSE IF f.kind = "message" THEN MessageVectors(T, f)
  ELSE ScalarVectors(f)

\* one plausible occurrence of a field, for the whole-message vectors
Piece(T, f) ==
  IF f.card = "map" THEN Key(f.tag, 2) \o LenPrefix(Key(1, WT(f.kk)) \o (IF f.kk \in {"string", "bytes"} THEN <<1, 97>> ELSE <<1>>))
  ELSE IF f.kind = "message" THEN Key(f.tag, 2) \o <<0>>
  ELSE IF f.kind \in VarintKinds THEN Key(f.tag, 0) \o <<1>>
  ELSE IF f.kind \in Fixed64Kinds THEN Key(f.tag, 1) \o <<1, 0, 0, 0, 0, 0, 0, 0>>
  ELSE IF f.kind \in Fixed32Kinds THEN Key(f.tag, 5) \o <<1, 0, 0, 0>>
  ELSE Key(f.tag, 2) \o <<1, 97>>

Tagged(f, vs) == {V("f" \o ToString(f.tag) \o "." \o v.id, v.bs) : v \in vs}

\* all vectors of a message: per field, per oneof (switching variants), and for the message as a whole
MsgVectors(T, name) ==
  LET es == T[name]
      u == MaxTag(es) + 1
      all == [i \in DOMAIN es |-> Piece(T, es[i].fs[1])]
      rev == [i \in DOMAIN es |-> Piece(T, es[Len(es) + 1 - i].fs[Len(es[Len(es) + 1 - i].fs)])]
  IN UNION {UNION {Tagged(es[i].fs[j], Vectors(T, es[i].fs[j])) : j \in DOMAIN es[i].fs} : i \in DOMAIN es}
     \cup UNION {{V("f" \o ToString(es[i].fs[j].tag) \o ".switch",
                    Piece(T, es[i].fs[j]) \o Piece(T, es[i].fs[(j % Len(es[i].fs)) + 1])) : j \in DOMAIN es[i].fs}
                 : i \in {i \in DOMAIN es : es[i].oneof}}
     \cup {V("m.empty", << >>), V("m.unkvar", Key(u, 0) \o <<1>>), V("m.unklen", Key(u, 2) \o <<1, 97>>),
           V("m.unk64", Key(u, 1) \o <<1, 2, 3, 4, 5, 6, 7, 8>>), V("m.unk32", Key(u, 5) \o <<1, 2, 3, 4>>),
           V("m.unktrunc", Key(u, 2) \o <<5>>), V("m.group", Key(u, 3) \o Key(1, 0) \o <<1>> \o Key(u, 4)),
           V("m.groupbad", Key(u, 3) \o Key(u + 1, 4)), V("m.unkhigh", Key(u + 1000, 0) \o <<1>>), V("m.endgroup", Key(u, 4)),
           V("m.wt6", [Key(u, 0) EXCEPT ![1] = @ + 6] \o <<1>>), V("m.tag0", <<0, 1>>), V("m.keytrunc", <<128>>),
           V("m.all", Flat(all)), V("m.rev", Flat(rev)), V("m.allunk", Flat(all) \o Key(u, 0) \o <<1>>)}

\* ------------------------------------------------------------------ compatibility of descriptors
(***************************************************************************)
(* Flat view of the fields of an entry list (here a field also carries its *)
(* name and the name of its oneof); comparison of an observed              *)
(* descriptor with the baseline (identity) and with an independent         *)
(* reference (every reference field present with the same tag, kind,       *)
(* cardinality, type; further fields need fresh tags, which uniqueness of  *)
(* tags within a message gives).  Type names compare up to letter case     *)
(* (done by the caller, who passes lower-cased names in `lty`).            *)
(***************************************************************************)
FlatFields(es) == UNION {{[tag |-> es[i].fs[j].tag, kind |-> es[i].fs[j].kind, card |-> es[i].fs[j].card,
                           lty |-> es[i].fs[j].lty, kk |-> es[i].fs[j].kk, packed |-> es[i].fs[j].packed,
                           name |-> es[i].fs[j].name, gname |-> es[i].fs[j].gname,
                           grp |-> IF es[i].oneof THEN EKey(es[i]) ELSE 0] : j \in DOMAIN es[i].fs} : i \in DOMAIN es}
TagsUnique(es) == \A a, b \in FlatFields(es) : a.tag = b.tag => a = b
\* differences against the baseline: any field added, removed or altered
DescDiff(base, cur) == (FlatFields(base) \ FlatFields(cur)) \cup (FlatFields(cur) \ FlatFields(base))
\* fields of the reference that the implementation does not carry identically, minus the agreed benign label differences
Incompatible(ref, impl, benign) ==
  {r \in FlatFields(ref) : /\ r \notin FlatFields(impl)
                           /\ ~\E b \in benign, m \in FlatFields(impl) :
                                  b.tag = r.tag /\ b.ref = r.card /\ b.impl = m.card /\ [r EXCEPT !.card = m.card] = m}
=============================================================================
