------------------------------- MODULE TfWire -------------------------------
(***************************************************************************)
(* C19, wire level: every token-factory message the staking contract       *)
(* emitted (both builds) is decoded with the wire-format specification     *)
(* ProtoWire under the descriptor of the TARGET chain's message            *)
(*   osmosis.tokenfactory.v1beta1.{MsgCreateDenom, MsgMint, MsgBurn}       *)
(*   miniwasm.tokenfactory.v1.{MsgCreateDenom, MsgMint, MsgBurn}           *)
(* (field numbers as in the chains' .proto files; Coin = {1: denom,        *)
(* 2: amount}); the bytes must be CANONICAL (Canon(D, bs) = bs) and decode *)
(* to the contract as sender and holder, the denom factory/<contract>/<sub>*)
(* and the exact amount. Strings travel as byte arrays (TLC strings cannot *)
(* be indexed); the expected field values are computed by the harness from *)
(* the abstract call (contract address, configured sub-denom, the amount   *)
(* the specification predicted - compared separately by Trace.tla).        *)
(***************************************************************************)
EXTENDS ProtoWire, Json, IOUtils

F(tag, kind, card) == [tag |-> tag, kind |-> kind, card |-> card, ty |-> "", lty |-> "", kk |-> "", packed |-> TRUE]
P(f) == [oneof |-> FALSE, fs |-> <<f>>]
Msg(tag, card, ty) == [F(tag, "message", card) EXCEPT !.ty = ty, !.lty = ty]
S(tag) == P(F(tag, "string", "single"))

TfT ==
  [Coin |-> <<S(1), S(2)>>,
   OsmoCreate |-> <<S(1), S(2)>>,
   OsmoMint   |-> <<S(1), P(Msg(2, "optional", "Coin")), S(3)>>,
   OsmoBurn   |-> <<S(1), P(Msg(2, "optional", "Coin")), S(3)>>,
   MiniCreate |-> <<S(1), S(2)>>,
   MiniMint   |-> <<S(1), P(Msg(2, "optional", "Coin")), S(3)>>,
   MiniBurn   |-> <<S(1), P(Msg(2, "optional", "Coin"))>>]
DescOf(url) ==
  CASE url = "/osmosis.tokenfactory.v1beta1.MsgCreateDenom" -> "OsmoCreate"
    [] url = "/osmosis.tokenfactory.v1beta1.MsgMint" -> "OsmoMint"
    [] url = "/osmosis.tokenfactory.v1beta1.MsgBurn" -> "OsmoBurn"
    [] url = "/miniwasm.tokenfactory.v1.MsgCreateDenom" -> "MiniCreate"
    [] url = "/miniwasm.tokenfactory.v1.MsgMint" -> "MiniMint"
    [] url = "/miniwasm.tokenfactory.v1.MsgBurn" -> "MiniBurn"
    [] OTHER -> "unknown"
Family(build) == IF build = "miniwasm" THEN "Mini" ELSE "Osmo"

Rec == ndJsonDeserialize(IOEnv.TRACE)
N == Len(Rec)
R1(c, x) == IF c THEN {} ELSE {x}

\* r = [build, url, k (tf_create | tf_mint | tf_burn), bs, contract, denom, amount, sub]  (all strings as byte arrays)
Problems(r) ==
  LET name == DescOf(r.url) IN
  IF name = "unknown" THEN {"type URL is not a token-factory message of a known chain"}
  ELSE
  LET D == [T |-> TfT, name |-> name]
      d == Decode(D, r.bs)
      c == Canon(D, r.bs)
      want == Family(r.build) \o (CASE r.k = "tf_create" -> "Create" [] r.k = "tf_mint" -> "Mint" [] r.k = "tf_burn" -> "Burn")
  IN R1(name = want, "type URL does not belong to the target chain's token-factory module")
     \cup R1(d.ok, "bytes do not decode as the target chain's message")
     \cup (IF ~d.ok THEN {} ELSE
           R1(c.bs = r.bs, "bytes are not canonical")
           \cup R1(d.v[1] = r.contract, "sender is not the contract")
           \cup (IF r.k = "tf_create" THEN R1(d.v[2] = r.sub, "sub-denom differs from the configured one")
                 ELSE R1(d.v[2] # << >> /\ d.v[2][1][1] = r.denom, "denom is not factory/<contract>/<sub>")
                      \cup R1(d.v[2] # << >> /\ d.v[2][1][2] = r.amount, "amount differs")
                      \cup (IF name \in {"OsmoMint", "MiniMint", "OsmoBurn"}
                            THEN R1(d.v[3] = r.contract, "holder (mint_to / burn_from) is not the contract") ELSE {})))

VARIABLES l, nfind
TInit == l = 1 /\ nfind = 0
TNext == /\ l <= N
         /\ LET Pb == Problems(Rec[l]) IN
              /\ nfind' = nfind + Cardinality(Pb)
              /\ IF Pb = {} THEN TRUE
                 ELSE PrintT("FINDING " \o ToJson([i |-> l, fs |-> {[l |-> l, kind |-> "tfwire", m |-> Rec[l].k, atom |-> x, props |-> {"C19"}] : x \in Pb}]))
         /\ l' = l + 1
TSpec == TInit /\ [][TNext]_<<l, nfind>>
Accepted == IF TLCGet("stats").diameter - 1 = N THEN PrintT("TRACE-CONSUMED " \o ToString(N))
            ELSE PrintT("TRACE-STUCK at line " \o ToString(TLCGet("stats").diameter)) /\ FALSE
=============================================================================
