---------------------------- MODULE OwnershipMC ----------------------------
(***************************************************************************)
(* The handover machine on its own, explored exhaustively: every sequence  *)
(* of nominate / revoke / accept by every principal, with the clock        *)
(* jumping to 7 days minus one second, exactly 7 days and later after each *)
(* nomination. `lastNom` is a history variable: the time of the most       *)
(* recent nomination still standing.                                       *)
(***************************************************************************)
EXTENDS Ownership, TLC, Json

CONSTANTS Who, MaxSteps, EmitTests,
          Interference   \* other operations of the same contract interleaved with the handover (they must leave it alone)
VARIABLES o, now, lastNom, steps, sid, par,
          intf   \* history: the interfering operation most recently run since the last handover step ("" = none); it
                 \* is part of the VIEW so that what follows an interference is explored (and emitted) in its own right
vars == <<o, now, lastNom, steps, sid, par, intf>>
View == <<o, now, lastNom, steps, intf>>
T0 == 1700000000

Init == /\ o = [admin |-> "admin", pending |-> OwnNone, minTime |-> OwnNoTime]
        /\ now = T0 /\ lastNom = OwnNoTime /\ steps = 0 /\ sid = 0 /\ par = 0 /\ intf = ""
        /\ (EmitTests => /\ TLCSet(1, 0)
                          /\ PrintT("MODEL " \o ToJson([kind |-> "ownership", who |-> Who])))

Emit(call, ok, o1) ==
  /\ par' = sid
  /\ IF EmitTests
     THEN /\ TLCSet(1, TLCGet(1) + 1) /\ sid' = TLCGet(1)
          /\ PrintT("EDGE " \o ToJson([src |-> sid, id |-> sid', call |-> call,
                                       d |-> <<ok, o1.admin, o1.pending, o1.minTime % 100000>>]))
     ELSE sid' = 0

Nominate(s, x) ==
  LET ok == OwnTransferWhy(o, s, TRUE) = {}
      o1 == IF ok THEN OwnTransfer(o, x, now) ELSE o IN
  /\ o' = o1 /\ lastNom' = IF ok THEN now ELSE lastNom
  /\ Emit([m |-> "transfer_ownership", s |-> s, to |-> x, tvalid |-> TRUE], ok, o1)
  /\ intf' = IF ok THEN "" ELSE intf
  /\ UNCHANGED now
Revoke(s) ==
  LET ok == OwnRevokeWhy(o, s) = {}
      o1 == IF ok THEN OwnRevoke(o) ELSE o IN
  /\ o' = o1 /\ lastNom' = IF ok THEN OwnNoTime ELSE lastNom
  /\ Emit([m |-> "revoke_ownership_transfer", s |-> s], ok, o1)
  /\ intf' = IF ok THEN "" ELSE intf
  /\ UNCHANGED now
Accept(s) ==
  LET ok == OwnAcceptWhy(o, s, now) = {}
      o1 == IF ok THEN OwnAccept(o, s) ELSE o IN
  /\ o' = o1 /\ lastNom' = IF ok THEN OwnNoTime ELSE lastNom
  /\ Emit([m |-> "accept_ownership", s |-> s], ok, o1)
  /\ intf' = IF ok THEN "" ELSE intf
  /\ UNCHANGED now
Tick ==
  /\ lastNom # OwnNoTime
  /\ \E t \in {lastNom + OwnershipDelay - 1, lastNom + OwnershipDelay, lastNom + OwnershipDelay + 1, now + 1} :
       /\ t > now /\ now' = t
       /\ Emit([m |-> "time", t |-> t, ns |-> IF t = lastNom + OwnershipDelay - 1 THEN 999999999 ELSE 0], TRUE, o)
  /\ UNCHANGED <<o, lastNom, intf>>

\* Everything else the contract offers is NOT part of the handover machine: whatever the current admin (or anybody)
\* does in between - halting and resuming the contract with corrected totals, replacing configuration sections,
\* an upgrade - leaves admin, nominee and time lock exactly as they were. The harness maps the abstract
\* operation to a concrete call of the contract under test (tree.rs); its own outcome is not judged here.
Interfere(k) ==
  /\ UNCHANGED <<o, now, lastNom>> /\ intf' = k
  /\ Emit([m |-> "interfere", op |-> k, s |-> o.admin], TRUE, o)

\* A nomination confers NOTHING before it is accepted: the nominee (who is neither the admin nor a monitor) tries the
\* admin's / monitors' operations - whenever, also after the time lock has expired - and must be refused. The harness
\* reports the real outcome here (the digest carries FALSE).
NomineeTries(k) ==
  /\ o.pending \notin {OwnNone, o.admin, "mon1", "mon2"}
  /\ UNCHANGED <<o, now, lastNom, intf>>
  /\ Emit([m |-> "interfere", op |-> k, s |-> o.pending, judged |-> TRUE], FALSE, o)

Next == /\ steps < MaxSteps /\ steps' = steps + 1
        /\ \/ \E s \in Who, x \in Who : Nominate(s, x)
           \/ \E s \in Who : Revoke(s)
           \/ \E s \in Who : Accept(s)
           \/ Tick
           \/ \E k \in Interference : Interfere(k)
           \/ \E k \in Interference \ {"upgrade"} : NomineeTries(k)
Spec == Init /\ [][Next]_vars

\* C12: the admin changes only by acceptance from the nominee no earlier than 7 days after the
\* most recent nomination; revocation / re-nomination cancel; acceptance consumes
A_C12 == [][o'.admin # o.admin =>
              /\ o.pending # OwnNone /\ o'.admin = o.pending
              /\ lastNom # OwnNoTime /\ now >= lastNom + OwnershipDelay
              /\ o'.pending = OwnNone]_vars
I_C12 == /\ (o.pending # OwnNone) => (lastNom # OwnNoTime /\ o.minTime = lastNom + OwnershipDelay)
         /\ (o.pending = OwnNone) => lastNom = OwnNoTime
=============================================================================
