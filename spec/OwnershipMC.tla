---------------------------- MODULE OwnershipMC ----------------------------
(***************************************************************************)
(* The handover machine on its own, explored exhaustively: every sequence  *)
(* of nominate / revoke / accept by every principal, with the clock        *)
(* jumping to 7 days minus one second, exactly 7 days and later after each *)
(* nomination. `lastNom` is a history variable: the time of the most       *)
(* recent nomination still standing.                                       *)
(***************************************************************************)
EXTENDS Ownership, TLC, Json

CONSTANTS Who, MaxSteps, EmitTests
VARIABLES o, now, lastNom, steps, sid, par
vars == <<o, now, lastNom, steps, sid, par>>
View == <<o, now, lastNom, steps>>
T0 == 1700000000

Init == /\ o = [admin |-> "admin", pending |-> OwnNone, minTime |-> OwnNoTime]
        /\ now = T0 /\ lastNom = OwnNoTime /\ steps = 0 /\ sid = 0 /\ par = 0
        /\ (EmitTests => /\ TLCSet(1, 0)
                          /\ PrintT("MODEL " \o ToJson([kind |-> "ownership", who |-> Who])))

Emit(call, ok, o1) ==
  /\ par' = sid
  /\ IF EmitTests
     THEN /\ TLCSet(1, TLCGet(1) + 1) /\ sid' = TLCGet(1)
          /\ PrintT("EDGE " \o ToJson([src |-> sid, id |-> sid', call |-> call,
                                       d |-> <<ok, o1.admin, o1.pending, o1.minTime % 100000>>]))
     ELSE sid' = 0

Nominate(s, x) ==
  LET ok == OwnTransferWhy(o, s, TRUE) = {}
      o1 == IF ok THEN OwnTransfer(o, x, now) ELSE o IN
  /\ o' = o1 /\ lastNom' = IF ok THEN now ELSE lastNom
  /\ Emit([m |-> "transfer_ownership", s |-> s, to |-> x, tvalid |-> TRUE], ok, o1)
  /\ UNCHANGED now
Revoke(s) ==
  LET ok == OwnRevokeWhy(o, s) = {}
      o1 == IF ok THEN OwnRevoke(o) ELSE o IN
  /\ o' = o1 /\ lastNom' = IF ok THEN OwnNoTime ELSE lastNom
  /\ Emit([m |-> "revoke_ownership_transfer", s |-> s], ok, o1)
  /\ UNCHANGED now
Accept(s) ==
  LET ok == OwnAcceptWhy(o, s, now) = {}
      o1 == IF ok THEN OwnAccept(o, s) ELSE o IN
  /\ o' = o1 /\ lastNom' = IF ok THEN OwnNoTime ELSE lastNom
  /\ Emit([m |-> "accept_ownership", s |-> s], ok, o1)
  /\ UNCHANGED now
Tick ==
  /\ lastNom # OwnNoTime
  /\ \E t \in {lastNom + OwnershipDelay - 1, lastNom + OwnershipDelay, lastNom + OwnershipDelay + 1, now + 1} :
       /\ t > now /\ now' = t
       /\ Emit([m |-> "time", t |-> t], TRUE, o)
  /\ UNCHANGED <<o, lastNom>>

Next == /\ steps < MaxSteps /\ steps' = steps + 1
        /\ \/ \E s \in Who, x \in Who : Nominate(s, x)
           \/ \E s \in Who : Revoke(s)
           \/ \E s \in Who : Accept(s)
           \/ Tick
Spec == Init /\ [][Next]_vars

\* C12: the admin changes only by acceptance from the nominee no earlier than 7 days after the
\* most recent nomination; revocation / re-nomination cancel; acceptance consumes
A_C12 == [][o'.admin # o.admin =>
              /\ o.pending # OwnNone /\ o'.admin = o.pending
              /\ lastNom # OwnNoTime /\ now >= lastNom + OwnershipDelay
              /\ o'.pending = OwnNone]_vars
I_C12 == /\ (o.pending # OwnNone) => (lastNom # OwnNoTime /\ o.minTime = lastNom + OwnershipDelay)
         /\ (o.pending = OwnNone) => lastNom = OwnNoTime
=============================================================================
