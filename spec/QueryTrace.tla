----------------------------- MODULE QueryTrace -----------------------------
(***************************************************************************)
(* Every recorded query of the real contract - Batches / IbcQueue with     *)
(* every (start_after, limit, status), BatchesByIds with id lists, paging  *)
(* chains, UnstakeRequests per user - must equal the operator of           *)
(* Queries.tla applied to the store contents read from RAW storage in the  *)
(* same state (so the comparison does not go through the queries).         *)
(***************************************************************************)
EXTENDS Queries, TLC, Json, IOUtils

Rec == ndJsonDeserialize(IOEnv.TRACE)
N == Len(Rec)
Store(r) == [i \in DOMAIN r.store |-> [id |-> r.store[i][1], tag |-> r.store[i][2]]]

Expected(r) ==
  CASE r.kind \in {"batches", "ibc_queue"} -> PageIds(Store(r), r.start_after, r.limit, r.status)
    [] r.kind = "by_ids" -> ByIds(Store(r), r.ids)
    [] r.kind = "chain" -> AllMatchingIds(Store(r), r.status)
    [] r.kind = "requests" -> << >>
Ok(r) ==
  IF r.kind = "requests"
  THEN /\ ToSet(r.resp) = {<<q[1], q[3]>> : q \in {x \in ToSet(r.reqs) : x[2] = r.user}}
       /\ Len(r.resp) = Cardinality(ToSet(r.resp))
       /\ \A i \in 1..(Len(r.resp) - 1) : r.resp[i][1] < r.resp[i + 1][1]
  ELSE /\ r.resp = Expected(r)
       /\ r.detail_ok

VARIABLES l, nfind
TInit == l = 1 /\ nfind = 0
TNext == /\ l <= N
         /\ LET r == Rec[l] IN
              /\ nfind' = nfind + (IF Ok(r) THEN 0 ELSE 1)
              /\ IF Ok(r) THEN TRUE
                 ELSE PrintT("FINDING " \o ToJson([i |-> l, fs |-> {[l |-> l, kind |-> "query", m |-> r.kind, atom |-> "response differs from Queries.tla", props |-> {"C17"}]}]))
         /\ l' = l + 1
TSpec == TInit /\ [][TNext]_<<l, nfind>>
Accepted == IF TLCGet("stats").diameter - 1 = N THEN PrintT("TRACE-CONSUMED " \o ToString(N))
            ELSE PrintT("TRACE-STUCK at line " \o ToString(TLCGet("stats").diameter)) /\ FALSE
=============================================================================
