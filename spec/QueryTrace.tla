----------------------------- MODULE QueryTrace -----------------------------
(***************************************************************************)
(* Every recorded query of the real contract - Batches / IbcQueue with     *)
(* every (start_after, limit, status), BatchesByIds with id lists, paging  *)
(* chains, UnstakeRequests per user - must equal the operator of           *)
(* Queries.tla applied to the store contents read from RAW storage in the  *)
(* same state (so the comparison does not go through the queries).         *)
(***************************************************************************)
EXTENDS Queries, TLC, Json, IOUtils

Rec == ndJsonDeserialize(IOEnv.TRACE)
N == Len(Rec)
Store(r) == [i \in DOMAIN r.store |-> [id |-> r.store[i][1], tag |-> r.store[i][2]]]

Expected(r) ==
  CASE r.kind \in {"batches", "ibc_queue"} -> PageIds(Store(r), r.start_after, r.limit, r.status)
    [] r.kind = "by_ids" -> ByIds(Store(r), r.ids)
    [] r.kind = "chain" -> AllMatchingIds(Store(r), r.status)
    [] r.kind = "reply_queue" -> PageIds(Store(r), r.start_after, r.limit, r.status)
    [] r.kind = "batch" -> BatchById(Store(r), r.ids[1])
    [] r.kind = "pending" -> PendingIds(Store(r))
    [] r.kind = "requests" -> << >>
    [] r.kind \in {"all_requests", "all_requests_v2"} -> << >>
AllReqs(r) == {[b |-> q[1], rank |-> q[2], amt |-> q[3]] : q \in ToSet(r.reqs)}
\* queries the listed property C17 names; the others (Batch, PendingBatch, IbcReplyQueue, the deprecated AllUnstakeRequests*)
\* are specified and checked all the same, reported outside the property
Listed(r) == r.kind \in {"batches", "ibc_queue", "by_ids", "chain", "requests"}
Ok(r) ==
  IF r.kind \in {"all_requests", "all_requests_v2"}
  THEN LET e == AllRequests(AllReqs(r), r.start_after, r.limit)
       IN /\ Len(r.resp) = Len(e)
          /\ \A i \in DOMAIN e : r.resp[i] = <<e[i].b, e[i].rank, e[i].amt>>
  ELSE IF r.kind = "pending"
  THEN r.resp = Expected(r) /\ Len(r.resp) = 1 /\ r.detail_ok
  ELSE IF r.kind = "requests"
  THEN /\ ToSet(r.resp) = {<<q[1], q[3]>> : q \in {x \in ToSet(r.reqs) : x[2] = r.user}}
       /\ Len(r.resp) = Cardinality(ToSet(r.resp))
       /\ \A i \in 1..(Len(r.resp) - 1) : r.resp[i][1] < r.resp[i + 1][1]
  ELSE /\ r.resp = Expected(r)
       /\ r.detail_ok

VARIABLES l, nfind
TInit == l = 1 /\ nfind = 0
TNext == /\ l <= N
         /\ LET r == Rec[l] IN
              /\ nfind' = nfind + (IF Ok(r) THEN 0 ELSE 1)
              /\ IF Ok(r) THEN TRUE
                 ELSE PrintT("FINDING " \o ToJson([i |-> l, fs |-> {[l |-> l, kind |-> "query", m |-> r.kind, atom |-> "response differs from Queries.tla", props |-> IF Listed(r) THEN {"C17"} ELSE {}]}]))
         /\ l' = l + 1
TSpec == TInit /\ [][TNext]_<<l, nfind>>
Accepted == IF TLCGet("stats").diameter - 1 = N THEN PrintT("TRACE-CONSUMED " \o ToString(N))
            ELSE PrintT("TRACE-STUCK at line " \o ToString(TLCGet("stats").diameter)) /\ FALSE
=============================================================================
