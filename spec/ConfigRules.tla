---------------------------- MODULE ConfigRules ----------------------------
(***************************************************************************)
(* C14: abstract well-formedness of the staking contract's configuration.  *)
(* Every configurable string is abstracted to a CLASS ("ok" or the way it  *)
(* is damaged); a message is a record field -> class plus the set of       *)
(* supplied sections. This module                                          *)
(*   - defines what the property demands of an ACCEPTED message            *)
(*     (WellFormed of what gets stored; sectional replacement; LST denom   *)
(*     and halted flag untouched; validator add/remove change one element),*)
(*   - enumerates the message space (every single-field corruption, all    *)
(*     pairs within a section, every subset of sections) for TLC to emit   *)
(*     as implementation tests (ConfigMC.tla),                             *)
(*   - is what ConfigTrace.tla checks recorded outcomes against.           *)
(***************************************************************************)
EXTENDS Integers, Sequences, FiniteSets, TLC

\* "other": a different, perfectly valid prefix (the addresses of the message stay under the usual one)
\* ("nonascii": a letter outside ASCII whose code point, truncated to a byte, would fall into the printable range)
PrefixClasses == {"ok", "upper", "mixed", "empty", "toolong", "badchar", "nonascii", "other"}
\* ("extprefix": a checksum-valid address whose prefix merely STARTS with the section's prefix, e.g. osmovaloper1... under osmo)
AddrClasses   == {"ok", "wrongprefix", "extprefix", "badchecksum", "notbech32", "upper", "mixedcase", "empty"}
OptAddrClasses == AddrClasses \cup {"none"}
\* ("dupfar" / "dupcasefar": the repetition is NOT next to its first occurrence)
ListClasses   == {"ok", "empty", "dup", "onewrongprefix", "oneextprefix", "onebadchecksum", "dupcase", "dupfar", "dupcasefar"}
DenomClasses  == {"ok", "short", "nonalpha"}
IbcDenomClasses == {"ok", "noprefix", "len63", "len65", "multibyte64"}
\* ("huge": digits only, but the number does not fit the 64 bits of an IBC channel sequence)
ChannelClasses == {"ok", "noprefix", "nonnumeric", "empty", "bare", "signed", "negative", "spaced", "huge"}

Sections == {"native", "proto", "feecfg", "monitorsec", "period"}
Fields == [native |-> {"n_prefix", "n_valprefix", "n_token", "n_validators", "n_staker", "n_collector"},
           proto |-> {"p_prefix", "p_ibcdenom", "p_channel", "p_oracle"},
           feecfg |-> {"f_treasury"},
           monitorsec |-> {"m_list"},
           period |-> {}]
ClassesOf(f) ==
  CASE f \in {"n_prefix", "n_valprefix", "p_prefix"} -> PrefixClasses
    [] f \in {"n_staker", "n_collector"} -> AddrClasses
    [] f \in {"p_oracle", "f_treasury"} -> OptAddrClasses
    [] f \in {"n_validators", "m_list"} -> ListClasses
    [] f = "n_token" -> DenomClasses
    [] f = "p_ibcdenom" -> IbcDenomClasses
    [] f = "p_channel" -> ChannelClasses
    [] f = "d_sub" -> DenomClasses
AllFields == UNION {Fields[s] : s \in Sections}
\* classes that are well-formed values of a field
GoodClass(f, c) == c = "ok" \/ (f \in {"p_oracle", "f_treasury"} /\ c = "none") \/ (f \in {"n_validators", "m_list"} /\ c = "empty")
BaseMsg == [f \in AllFields \cup {"d_sub"} |-> "ok"]

\* what the property demands of the STORED configuration (classes by an independent classifier)
WellFormed(stored) == \A f \in DOMAIN stored : GoodClass(f, stored[f])

\* ------------------------------------------------------------------ message space
One(f, c) == [BaseMsg EXCEPT ![f] = c]
Singles == {One(f, c) : f \in AllFields \cup {"d_sub"}, c \in UNION {ClassesOf(g) : g \in AllFields \cup {"d_sub"}}}
ValidSingles == {m \in Singles : \A f \in DOMAIN m : m[f] \in ClassesOf(f)}
AllClasses == UNION {ClassesOf(g) : g \in AllFields \cup {"d_sub"}}
PairsIn(s) == {[BaseMsg EXCEPT ![p[1]] = p[3], ![p[2]] = p[4]] : p \in Fields[s] \X Fields[s] \X AllClasses \X AllClasses}
InstantiateMsgs == ValidSingles \cup UNION {{m \in PairsIn(s) : \A f \in DOMAIN m : m[f] \in ClassesOf(f)} : s \in {"native", "proto"}}

\* update messages: a subset of sections, at most one damaged field among the supplied ones
MsgsFor(S) == {BaseMsg} \cup {One(f, c) : f \in UNION {Fields[s] : s \in S}, c \in UNION {ClassesOf(g) : g \in AllFields}}
UpdateMsgs == UNION {{[sections |-> S, classes |-> m] : m \in MsgsFor(S)} : S \in SUBSET Sections}
\* ... plus every pair (protocol prefix, oracle) - a prefix change goes through only when no address of its own
\* section contradicts it, which is where the other sections' addresses must be re-checked against the NEW prefix
ProtoPairs == {[BaseMsg EXCEPT !["p_prefix"] = c, !["p_oracle"] = d] : c \in PrefixClasses, d \in OptAddrClasses}
ValidUpdateMsgs == {u \in UpdateMsgs : \A f \in DOMAIN u.classes : u.classes[f] \in ClassesOf(f)}
                   \cup UNION {{[sections |-> S, classes |-> m] : m \in ProtoPairs} : S \in {T \in SUBSET Sections : "proto" \in T}}

\* prediction used only for coverage statistics (the property does not demand acceptance):
\* everything supplied is a good value
AllGood(m, fs) == \A f \in fs : GoodClass(f, m[f])
=============================================================================
