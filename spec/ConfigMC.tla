----------------------------- MODULE ConfigMC -----------------------------
(* TLC enumerates the abstract message space of ConfigRules.tla and prints one implementation test per message. *)
EXTENDS ConfigRules, Json
CONSTANTS Pairs,       \* BOOLEAN: include all pairs within a section (thorough)
          VSeqLen      \* length of the AddValidator / RemoveValidator sequences
VARIABLE msg
\* the validator list as a set of <<validator, spelling>>; AddValidator refuses a validator listed under ANY spelling and
\* stores the spelling it was given, RemoveValidator removes the entry spelled exactly as given
VOps == [op : {"add_validator", "remove_validator"}, v : {"val1", "val3"}, spelling : {"lower", "upper"}]
VStored0 == {<<"val1", "lower">>, <<"val2", "lower">>}
VOk(S, o) == IF o.op = "add_validator" THEN ~\E x \in S : x[1] = o.v ELSE <<o.v, o.spelling>> \in S
VAfter(S, o) == IF ~VOk(S, o) THEN S ELSE IF o.op = "add_validator" THEN S \cup {<<o.v, o.spelling>>} ELSE S \ {<<o.v, o.spelling>>}
RECURSIVE VWant(_, _)
VWant(S, q) == IF q = << >> THEN << >> ELSE <<VOk(S, Head(q))>> \o VWant(VAfter(S, Head(q)), Tail(q))
Inst == IF Pairs THEN InstantiateMsgs ELSE ValidSingles
Init == \/ /\ msg \in {[kind |-> "instantiate", classes |-> m, sections |-> Sections,
                        want |-> AllGood(m, AllFields \cup {"d_sub"})] : m \in Inst}
           /\ PrintT("CFG " \o ToJson(msg))
        \/ /\ msg \in {[kind |-> "update", classes |-> u.classes, sections |-> u.sections,
                        want |-> AllGood(u.classes, UNION {Fields[s] : s \in u.sections})] : u \in ValidUpdateMsgs}
           /\ PrintT("CFG " \o ToJson(msg))
        \* every sequence of VSeqLen validator additions / removals by the admin, each naming a listed (val1) or an
        \* unlisted (val3) validator in lower- or upper-case spelling, starting from the list [val1, val2]; `want` is
        \* the outcome of each step in the reference semantics (statistics only - ConfigTrace judges the property)
        \/ /\ msg \in {[kind |-> "vseq", steps |-> q, want |-> VWant(VStored0, q)] : q \in [1..VSeqLen -> VOps]}
           /\ PrintT("VSEQ " \o ToJson(msg))
Next == UNCHANGED msg
Spec == Init /\ [][Next]_msg
=============================================================================
