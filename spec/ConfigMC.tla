----------------------------- MODULE ConfigMC -----------------------------
(* TLC enumerates the abstract message space of ConfigRules.tla and prints one implementation test per message. *)
EXTENDS ConfigRules, Json
CONSTANT Pairs        \* BOOLEAN: include all pairs within a section (thorough)
VARIABLE msg
Inst == IF Pairs THEN InstantiateMsgs ELSE ValidSingles
Init == \/ /\ msg \in {[kind |-> "instantiate", classes |-> m, sections |-> Sections,
                        want |-> AllGood(m, AllFields \cup {"d_sub"})] : m \in Inst}
           /\ PrintT("CFG " \o ToJson(msg))
        \/ /\ msg \in {[kind |-> "update", classes |-> u.classes, sections |-> u.sections,
                        want |-> AllGood(u.classes, UNION {Fields[s] : s \in u.sections})] : u \in ValidUpdateMsgs}
           /\ PrintT("CFG " \o ToJson(msg))
Next == UNCHANGED msg
Spec == Init /\ [][Next]_msg
=============================================================================
