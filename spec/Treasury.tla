------------------------------ MODULE Treasury ------------------------------
(***************************************************************************)
(* The treasury contract (contracts/treasury): trader-only swaps along     *)
(* allow-listed routes, admin-only spending and configuration, the same    *)
(* ownership machine as the staking contract.                              *)
(*   t = [inst, admin, pending, minTime, trader, routes]                   *)
(*   routes : sequence of routes; a route is a sequence of hops            *)
(*            [pool, din, dout]                                            *)
(* TApply(t, call, now) = [ok, t, msgs, why], one operator per ExecuteMsg  *)
(* variant of treasury/src/msg.rs.                                         *)
(***************************************************************************)
EXTENDS Integers, Sequences, FiniteSets, Ownership

TR(cond, name) == IF cond THEN {name} ELSE {}
TErr(t, why) == [ok |-> FALSE, t |-> t, msgs |-> << >>, why |-> why]
TOk(t, msgs) == [ok |-> TRUE, t |-> t, msgs |-> msgs, why |-> {}]
TreasuryAcct == "treasury"

TUninit == [inst |-> FALSE, admin |-> "", pending |-> OwnNone, minTime |-> OwnNoTime, trader |-> "", routes |-> << >>]
TOwn(t) == [admin |-> t.admin, pending |-> t.pending, minTime |-> t.minTime]
TWithOwn(t, o) == [t EXCEPT !.admin = o.admin, !.pending = o.pending, !.minTime = o.minTime]

\* contract.rs instantiate: admin / trader default to the sender
TInstantiate(t, call) ==
  LET why == TR(t.inst, "already_instantiated") \cup TR(~call.avalid, "invalid_address")
  IN IF why # {} THEN TErr(t, why)
     ELSE TOk([inst |-> TRUE, admin |-> IF call.admin = "" THEN call.s ELSE call.admin,
               pending |-> OwnNone, minTime |-> OwnNoTime,
               trader |-> IF call.trader = "" THEN call.s ELSE call.trader, routes |-> call.routes], << >>)

\* state.rs Config::assert_allowed_swap_route: non-empty and IDENTICAL to an allow-listed route
RouteAllowed(t, route) == route # << >> /\ \E i \in DOMAIN t.routes : t.routes[i] = route

\* execute.rs execute_swap_exact_amount_in / _out
SwapIn(t, call) ==
  LET why == TR(call.s # t.trader, "not_trader")
             \cup TR(~RouteAllowed(t, call.route), "route_not_allowed")
             \cup TR(call.route # << >> /\ call.route[1].din # call.den, "denom_mismatch")
      msg == [k |-> "swap_in", sender |-> TreasuryAcct,
              route |-> [i \in DOMAIN call.route |-> <<call.route[i].pool, call.route[i].dout>>],
              den |-> call.den, amt |-> call.amt, limit |-> call.limit]
  IN IF why # {} THEN TErr(t, why) ELSE TOk(t, <<msg>>)
SwapOut(t, call) ==
  LET why == TR(call.s # t.trader, "not_trader")
             \cup TR(~RouteAllowed(t, call.route), "route_not_allowed")
             \cup TR(call.route # << >> /\ call.route[Len(call.route)].dout # call.den, "denom_mismatch")
      msg == [k |-> "swap_out", sender |-> TreasuryAcct,
              route |-> [i \in DOMAIN call.route |-> <<call.route[i].pool, call.route[i].din>>],
              den |-> call.den, amt |-> call.amt, limit |-> call.limit]
  IN IF why # {} THEN TErr(t, why) ELSE TOk(t, <<msg>>)

\* execute.rs execute_spend_funds: local spends to protocol-chain ("osmo") addresses, IBC spends to
\* native-chain ("celestia") addresses
\* call.channel: "" = no channel given (None); EmptyChannel = a channel id was given and it is the empty string
\* (still an IBC spend: the code decides on presence, not on content)
EmptyChannel == "<empty>"
Spend(t, call) ==
  LET ibc == call.channel # ""
      why == TR(call.s # t.admin, "unauthorized")
             \cup TR(~ibc /\ ~call.rosmo, "bad_local_receiver")
             \cup TR(ibc /\ ~call.rcel, "bad_ibc_receiver")
      msg == IF ibc THEN [k |-> "t_ibc", channel |-> IF call.channel = EmptyChannel THEN "" ELSE call.channel,
                          den |-> call.den, amt |-> call.amt, rcv |-> call.receiver]
             ELSE [k |-> "t_send", to |-> call.receiver, den |-> call.den, amt |-> call.amt]
  IN IF why # {} THEN TErr(t, why) ELSE TOk(t, <<msg>>)

\* execute.rs execute_update_config: sectional
TUpdateConfig(t, call) ==
  LET why == TR(call.s # t.admin, "unauthorized") \cup TR(call.has_trader /\ ~call.tvalid, "invalid_address")
  IN IF why # {} THEN TErr(t, why)
     ELSE TOk([t EXCEPT !.trader = IF call.has_trader THEN call.trader ELSE @,
                        !.routes = IF call.has_routes THEN call.routes ELSE @], << >>)

TTransfer(t, call, now) ==
  LET why == OwnTransferWhy(TOwn(t), call.s, call.tvalid)
  IN IF why # {} THEN TErr(t, why) ELSE TOk(TWithOwn(t, OwnTransfer(TOwn(t), call.to, now)), << >>)
TRevoke(t, call) ==
  LET why == OwnRevokeWhy(TOwn(t), call.s)
  IN IF why # {} THEN TErr(t, why) ELSE TOk(TWithOwn(t, OwnRevoke(TOwn(t))), << >>)
TAccept(t, call, now) ==
  LET why == OwnAcceptWhy(TOwn(t), call.s, now)
  IN IF why # {} THEN TErr(t, why) ELSE TOk(TWithOwn(t, OwnAccept(TOwn(t), call.s)), << >>)

TreasuryMsgs == {"t_instantiate", "t_swap_in", "t_swap_out", "t_spend", "t_update_config",
                 "t_transfer_ownership", "t_revoke_ownership_transfer", "t_accept_ownership"}
TApply(t, call, now) ==
  IF call.m = "t_instantiate" THEN TInstantiate(t, call)
  ELSE IF ~t.inst THEN TErr(t, {"uninstantiated"})
  ELSE CASE call.m = "t_swap_in" -> SwapIn(t, call)
         [] call.m = "t_swap_out" -> SwapOut(t, call)
         [] call.m = "t_spend" -> Spend(t, call)
         [] call.m = "t_update_config" -> TUpdateConfig(t, call)
         [] call.m = "t_transfer_ownership" -> TTransfer(t, call, now)
         [] call.m = "t_revoke_ownership_transfer" -> TRevoke(t, call)
         [] call.m = "t_accept_ownership" -> TAccept(t, call, now)
=============================================================================
