---------------------------- MODULE OwnershipInd ----------------------------
(***************************************************************************)
(* C12 without bounds: the handover machine of Ownership.tla over an       *)
(* ARBITRARY set of principals and UNBOUNDED integer time, checked by      *)
(* Apalache (SMT) as an inductive invariant:                               *)
(*     Init => IndInv            (--init=Init    --length=0)               *)
(*     IndInv /\ Next => IndInv' (--init=IndInit --length=1)               *)
(*     IndInv => Safe                                                      *)
(* `lastNom` is the history variable of OwnershipMC.tla (time of the       *)
(* nomination still standing), `prevAdmin` / `accepted` record the last    *)
(* step so that the action property of C12 ("the admin changes only by an  *)
(* acceptance from the nominee no earlier than seven days after the most   *)
(* recent nomination") becomes a state predicate.                          *)
(* Interfere stands for every other operation of the contract: it must     *)
(* leave the machine alone (what the replay checks on the real code).      *)
(* False variants (a machine without the time lock / that keeps the        *)
(* nomination on acceptance) are refuted - a vacuous encoding would be     *)
(* noticed.                                                                *)
(***************************************************************************)
EXTENDS Integers, Ownership

CONSTANT
  \* @type: Set(Str);
  Who

VARIABLES
  \* @type: { admin: Str, pending: Str, minTime: Int };
  o,
  \* @type: Int;
  now,
  \* @type: Int;
  lastNom,
  \* @type: Bool;
  changed,      \* the last step changed the admin
  \* @type: Bool;
  lawful        \* ... and did so lawfully (nominee, lock expired, nomination consumed)

ConstInit == Who \in SUBSET {"a", "b", "c", "d", "e"} /\ "a" \in Who

Init == /\ o = [admin |-> "a", pending |-> OwnNone, minTime |-> OwnNoTime]
        /\ now \in Nat /\ lastNom = OwnNoTime /\ changed = FALSE /\ lawful = TRUE

Step(o1, ln) ==
  /\ o' = o1 /\ lastNom' = ln
  /\ changed' = (o1.admin # o.admin)
  /\ lawful' = ((o1.admin # o.admin) =>
                   /\ o.pending # OwnNone /\ o1.admin = o.pending
                   /\ lastNom # OwnNoTime /\ now >= lastNom + OwnershipDelay
                   /\ o1.pending = OwnNone)

Nominate == \E s \in Who, x \in Who :
  LET ok == OwnTransferWhy(o, s, TRUE) = {} IN
  /\ Step(IF ok THEN OwnTransfer(o, x, now) ELSE o, IF ok THEN now ELSE lastNom) /\ UNCHANGED now
Revoke == \E s \in Who :
  LET ok == OwnRevokeWhy(o, s) = {} IN
  /\ Step(IF ok THEN OwnRevoke(o) ELSE o, IF ok THEN OwnNoTime ELSE lastNom) /\ UNCHANGED now
Accept == \E s \in Who :
  LET ok == OwnAcceptWhy(o, s, now) = {} IN
  /\ Step(IF ok THEN OwnAccept(o, s) ELSE o, IF ok THEN OwnNoTime ELSE lastNom) /\ UNCHANGED now
Tick == \E d \in Nat : d > 0 /\ now' = now + d /\ Step(o, lastNom)
Interfere == Step(o, lastNom) /\ UNCHANGED now
Next == Nominate \/ Revoke \/ Accept \/ Tick \/ Interfere

\* ---------------------------------------------------------------- invariants
TypeOK == /\ o.admin \in Who /\ o.pending \in Who \cup {OwnNone} /\ OwnNone \notin Who
          /\ now >= 0 /\ lastNom >= OwnNoTime /\ lastNom <= now
IndInv == /\ TypeOK
          /\ (o.pending # OwnNone) => (lastNom # OwnNoTime /\ o.minTime = lastNom + OwnershipDelay)
          /\ (o.pending = OwnNone) => lastNom = OwnNoTime
          /\ lawful
IndInit == /\ o \in [admin : Who, pending : Who \cup {OwnNone}, minTime : Int]
           /\ now \in Int /\ lastNom \in Int /\ changed \in BOOLEAN /\ lawful \in BOOLEAN
           /\ IndInv
Safe == lawful

\* ---------------------------------------------------------------- false variants (must be refuted)
\* acceptance is possible at all (otherwise `lawful` would hold vacuously)
False_NeverChanges == ~changed
\* the lock is exactly seven days, not eight
False_EightDays == changed => now >= lastNom + OwnershipDelay + 86400
=============================================================================
