---------------------------- MODULE ArithProofs ----------------------------
(***************************************************************************)
(* TLAPS proofs, for ALL natural numbers, of the arithmetic facts behind    *)
(* C04 (floor rounding, no dilution, no rounding profit), C05 (payouts     *)
(* never exceed the receipt) and C11 (fee conservation and bound). They    *)
(* are stated about the operators of Arith.tla - the same definitions the  *)
(* model, the trace validator and the vector checks use.                   *)
(***************************************************************************)
EXTENDS ArithCore, TLAPS

IsFloorDiv(x, d, q) == q \in Nat /\ q * d <= x /\ x < (q + 1) * d

LEMMA MulMono == ASSUME NEW a \in Nat, NEW b \in Nat, NEW c \in Nat, a <= b PROVE a * c <= b * c
  OBVIOUS
LEMMA MulCancel == ASSUME NEW a \in Nat, NEW b \in Nat, NEW c \in Nat, c > 0, a * c <= b * c PROVE a <= b
  <1>1. CASE a <= b BY <1>1
  <1>2. CASE a > b
    <2>1. a >= b + 1 BY <1>2
    <2>2. a * c >= (b + 1) * c BY <2>1, MulMono
    <2>3. (b + 1) * c = b * c + c OBVIOUS
    <2> QED BY <2>2, <2>3
  <1> QED BY <1>1, <1>2

\* x \div d is THE floor quotient
THEOREM FloorDivChar ==
  ASSUME NEW x \in Nat, NEW d \in Nat, d > 0
  PROVE  IsFloorDiv(x, d, x \div d)
  BY Z3 DEF IsFloorDiv

THEOREM MulDivFloorChar ==
  ASSUME NEW a \in Nat, NEW b \in Nat, NEW d \in Nat, d > 0
  PROVE  IsFloorDiv(a * b, d, MulDivFloor(a, b, d))
  <1>1. a * b \in Nat OBVIOUS
  <1> QED BY <1>1, FloorDivChar DEF MulDivFloor

\* C04: the mint is floor(a * L / N): never more than the fair share, less than one unit below it
THEOREM MintIsFloor ==
  ASSUME NEW N \in Nat, NEW L \in Nat, NEW a \in Nat, N > 0
  PROVE  LET m == MintAmount(N, L, a) IN m \in Nat /\ m * N <= a * L /\ a * L < (m + 1) * N
  <1>1. MintAmount(N, L, a) = MulDivFloor(L, a, N) BY DEF MintAmount
  <1>2. IsFloorDiv(L * a, N, MulDivFloor(L, a, N)) BY MulDivFloorChar
  <1>3. L * a = a * L OBVIOUS
  <1> QED BY <1>1, <1>2, <1>3 DEF IsFloorDiv

\* C04: staking never lowers the redemption rate N/L of the existing holders
THEOREM NoDilutionStake ==
  ASSUME NEW N \in Nat, NEW L \in Nat, NEW a \in Nat, NEW m \in Nat, N > 0, m * N <= a * L
  PROVE  (N + a) * L >= N * (L + m)
  <1>1. (N + a) * L = N * L + a * L OBVIOUS
  <1>2. N * (L + m) = N * L + m * N OBVIOUS
  <1> QED BY <1>1, <1>2

\* C04: submitting a batch sets aside floor(N * b / L) <= N and never lowers the rate of the rest
THEOREM NoDilutionSubmit ==
  ASSUME NEW N \in Nat, NEW L \in Nat, NEW b \in Nat, NEW u \in Nat, L > 0, b <= L,
         IsFloorDiv(N * b, L, u)
  PROVE  /\ u <= N
         /\ (N - u) * L >= N * (L - b)
  <1>1. u * L <= N * b BY DEF IsFloorDiv
  <1>2. N * b <= N * L BY MulMono
  <1>3. u * L <= N * L BY <1>1, <1>2
  <1>4. u <= N BY <1>3, MulCancel
  <1>5. (N - u) * L = N * L - u * L OBVIOUS
  <1>6. N * (L - b) = N * L - N * b OBVIOUS
  <1> QED BY <1>1, <1>4, <1>5, <1>6

\* C04: staking a and immediately unstaking the minted m never returns more than a
THEOREM NoRoundTripProfit ==
  ASSUME NEW N \in Nat, NEW L \in Nat, NEW a \in Nat, NEW m \in Nat, NEW u \in Nat,
         N > 0, m > 0, m * N <= a * L,
         IsFloorDiv((N + a) * m, L + m, u)
  PROVE  u <= a
  <1>1. u * (L + m) <= (N + a) * m BY DEF IsFloorDiv
  <1>2. (N + a) * m = m * N + a * m OBVIOUS
  <1>3. (N + a) * m <= a * L + a * m BY <1>2
  <1>4. a * L + a * m = a * (L + m) OBVIOUS
  <1>5. u * (L + m) <= a * (L + m) BY <1>1, <1>3, <1>4
  <1>6. L + m \in Nat /\ L + m > 0 OBVIOUS
  <1> QED BY <1>5, <1>6, MulCancel

\* C11: fee + restaked = reward, and the fee never exceeds the reward for rates up to 100 %
THEOREM FeeConservation ==
  ASSUME NEW a \in Nat, NEW f \in Nat, f <= a
  PROVE  f + (a - f) = a
  OBVIOUS
THEOREM FeeBound ==
  ASSUME NEW r \in Nat, NEW a \in Nat, NEW f \in Nat, IsFloorDiv(r * a, 100000, f), r <= 100000
  PROVE  f <= a
  <1>1. f * 100000 <= r * a BY DEF IsFloorDiv
  <1>2. r * a <= 100000 * a BY MulMono
  <1>3. f * 100000 <= a * 100000 BY <1>1, <1>2
  <1> QED BY <1>3

\* C05: two payouts of one batch never add up to more than was received (sum of floors <= floor of sum)
THEOREM PayoutPair ==
  ASSUME NEW R \in Nat, NEW T \in Nat, NEW x \in Nat, NEW y \in Nat, NEW p \in Nat, NEW q \in Nat,
         T > 0, x + y <= T, IsFloorDiv(R * x, T, p), IsFloorDiv(R * y, T, q)
  PROVE  p + q <= R
  <1>1. p * T <= R * x /\ q * T <= R * y BY DEF IsFloorDiv
  <1>2. (p + q) * T = p * T + q * T OBVIOUS
  <1>3. R * x + R * y = R * (x + y) OBVIOUS
  <1>4. R * (x + y) <= R * T BY MulMono
  <1>5. (p + q) * T <= R * T BY <1>1, <1>2, <1>3, <1>4
  <1>6. p + q \in Nat OBVIOUS
  <1> QED BY <1>5, <1>6, MulCancel
=============================================================================
