--------------------------- MODULE ArithApalache ---------------------------
(***************************************************************************)
(* Second opinion on the arithmetic lemmas of ArithProofs.tla: Apalache    *)
(* (SMT, unbounded integers) checks them as invariants of a system whose   *)
(* initial states are ALL natural values of the totals and amounts         *)
(* (`--length=0`). Two deliberately false variants must be refuted, so a   *)
(* vacuous encoding would be noticed.                                      *)
(***************************************************************************)
EXTENDS Integers, ArithCore
VARIABLES
  \* @type: Int;
  N,
  \* @type: Int;
  L,
  \* @type: Int;
  a,
  \* @type: Int;
  b
Init == N \in Nat /\ L \in Nat /\ a \in Nat /\ b \in Nat /\ N > 0 /\ L > 0 /\ b <= L
Next == UNCHANGED <<N, L, a, b>>
m == MintAmount(N, L, a)
u == UnbondAmount(N, L, b)
FloorMint == m * N <= a * L /\ a * L < (m + 1) * N
NoDilutionStake == (N + a) * L >= N * (L + m)
NoDilutionSubmit == u <= N /\ (N - u) * L >= N * (L - b)
NoRoundTripProfit == m > 0 => MulDivFloor(N + a, m, L + m) <= a
FeeBound == FeeOf(100000, a) = a /\ FeeOf(0, a) = 0 /\ FeeOf(50000, a) * 2 <= a
\* must be REFUTED
False_StrictDilution == (N + a) * L > N * (L + m)
False_CeilMint == m * N >= a * L
=============================================================================
