----------------------------- MODULE HookTrace -----------------------------
(***************************************************************************)
(* C09, the derivation itself. In the model ibc-hooks is environment:      *)
(* HookName(channel, sender) (Staking.tla) is an injective naming of the   *)
(* intermediate account. The simulator REALISES it with its own            *)
(* transcription of the Osmosis keeper                                     *)
(*   bech32(prefix, sha256(sha256("ibc-wasm-hook-intermediary") ||         *)
(*                          channel || "/" || sender))                     *)
(* Every record carries, for one generated (channel, sender, prefix), the  *)
(* account computed by the contract's derive_intermediate_sender (`impl`)  *)
(* and by the simulator (`sim`); they must be equal, and distinct triples  *)
(* must give distinct accounts (the naming is injective on what was seen). *)
(***************************************************************************)
EXTENDS Integers, Sequences, FiniteSets, TLC, Json, IOUtils

Rec == ndJsonDeserialize(IOEnv.TRACE)
N == Len(Rec)
Key(r) == <<r.channel, r.sender, r.prefix>>

Findings(l) ==
  LET r == Rec[l] IN
  {[l |-> l, kind |-> "hook", m |-> "derive", atom |-> "impl # sim", props |-> {"C09"}] : x \in IF r.impl = r.sim THEN {} ELSE {1}}
  \cup {[l |-> l, kind |-> "hook", m |-> "derive", atom |-> "collision", props |-> {"C09"}] :
          j \in {j \in 1..(l - 1) : Key(Rec[j]) # Key(r) /\ Rec[j].impl = r.impl}}
  \cup {[l |-> l, kind |-> "hook", m |-> "derive", atom |-> "not deterministic", props |-> {"C09"}] :
          j \in {j \in 1..(l - 1) : Key(Rec[j]) = Key(r) /\ Rec[j].impl # r.impl}}

VARIABLES l, nfind
TInit == l = 1 /\ nfind = 0
TNext == /\ l <= N
         /\ LET F == Findings(l) IN
              /\ nfind' = nfind + Cardinality(F)
              /\ IF F = {} THEN TRUE ELSE PrintT("FINDING " \o ToJson([i |-> l, fs |-> F]))
         /\ l' = l + 1
TSpec == TInit /\ [][TNext]_<<l, nfind>>
Accepted == IF TLCGet("stats").diameter - 1 = N THEN PrintT("TRACE-CONSUMED " \o ToString(N))
            ELSE PrintT("TRACE-STUCK at line " \o ToString(TLCGet("stats").diameter)) /\ FALSE
=============================================================================
