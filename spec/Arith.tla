------------------------------- MODULE Arith -------------------------------
(***************************************************************************)
(* ArithCore plus the decimal rendering of exchange rates                  *)
(* (helpers.rs get_rates: Decimal::from_ratio, 18 fractional digits).      *)
(***************************************************************************)
EXTENDS ArithCore, Sequences

(***************************************************************************)
(* cosmwasm Decimal::from_ratio(num, den).to_string(): floor to 18         *)
(* fractional digits, trailing zeros trimmed, "w" or "w.f". Computed by    *)
(* long division so that no intermediate value exceeds 10 * den (TLC's     *)
(* integers are 32 bit).                                                   *)
(***************************************************************************)
DigitStr(d) == <<"0", "1", "2", "3", "4", "5", "6", "7", "8", "9">>[d + 1]

RECURSIVE NatStr(_)
NatStr(n) == IF n < 10 THEN DigitStr(n) ELSE NatStr(n \div 10) \o DigitStr(n % 10)

RECURSIVE FracDigits(_, _, _)
FracDigits(r, den, k) ==
  IF k = 0 THEN << >>
  ELSE <<(r * 10) \div den>> \o FracDigits((r * 10) % den, den, k - 1)

RECURSIVE TrimZeros(_)
TrimZeros(ds) == IF ds = << >> THEN ds
                 ELSE IF ds[Len(ds)] = 0 THEN TrimZeros(SubSeq(ds, 1, Len(ds) - 1)) ELSE ds

RECURSIVE DigitsStr(_)
DigitsStr(ds) == IF ds = << >> THEN "" ELSE DigitStr(Head(ds)) \o DigitsStr(Tail(ds))

DecStr(num, den) ==
  LET ds == TrimZeros(FracDigits(num % den, den, 18))
  IN  IF ds = << >> THEN NatStr(num \div den)
      ELSE NatStr(num \div den) \o "." \o DigitsStr(ds)

\* <<redemption rate, purchase rate>> as posted to the oracle (helpers.rs get_rates).
\* N = 0 with L # 0 is outside the domain of C15/C16 (rate 0); the code divides by zero there.
Rates(N, L) == IF L = 0 THEN <<"0", "0">>
               ELSE IF N = 0 THEN <<"0", "div-by-zero">>
               ELSE <<DecStr(N, L), DecStr(L, N)>>
=============================================================================
