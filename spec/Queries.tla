------------------------------ MODULE Queries ------------------------------
(***************************************************************************)
(* The read side of the staking contract (query.rs, helpers.rs             *)
(* paginate_map): paging over an id-ordered store with an exclusive start  *)
(* cursor, a limit that counts MATCHING items, and an optional filter;     *)
(* lookup by id list; the per-user request index.                          *)
(* A store is a sequence of [id, tag] records in ascending id order        *)
(* (tag = batch status, or "" where no filter exists).                     *)
(***************************************************************************)
EXTENDS Integers, Sequences, FiniteSets, SequencesExt

NoCursor == -1
NoLimit == -1
NoFilter == ""

Matching(store, startAfter, filter) ==
  SelectSeq(store, LAMBDA r : (startAfter = NoCursor \/ r.id > startAfter) /\ (filter = NoFilter \/ r.tag = filter))
Take(s, n) == IF n = NoLimit \/ n >= Len(s) THEN s ELSE SubSeq(s, 1, n)
\* Batches{start_after, limit, status} / IbcQueue{start_after, limit}
Page(store, startAfter, limit, filter) == Take(Matching(store, startAfter, filter), limit)
PageIds(store, startAfter, limit, filter) == [i \in DOMAIN Page(store, startAfter, limit, filter) |-> Page(store, startAfter, limit, filter)[i].id]

\* BatchesByIds{ids}: exactly the existing requested batches, in request order
ByIds(store, ids) == SelectSeq(ids, LAMBDA x : \E i \in DOMAIN store : store[i].id = x)

\* UnstakeRequests{user}: that user's open requests over all batches, ascending batch id
RequestsOf(reqs, user) == {<<r.b, r.amt>> : r \in {q \in reqs : q.u = user}}

\* Batch{id}: the batch with that id, or an error (here: the empty answer)
BatchById(store, id) == ByIds(store, <<id>>)
\* PendingBatch{}: the one batch that is still collecting requests (a reachable store has exactly one)
PendingIds(store) == PageIds(store, NoCursor, NoLimit, "pending")

\* AllUnstakeRequests / AllUnstakeRequestsV2 {start_after, limit} (deprecated, kept by the contract): every open request
\* ordered by (user, batch). A request is [b, rank, amt] where rank is the position of the user's address among the
\* addresses in string order. NAMED DEVIATION from what a pager would expect: the cursor is turned into the bound
\* ("", start_after), which lies below every real key (no address is the empty string), so `start_after` never skips
\* anything - the answer is always a prefix of the whole list.
ReqLess(x, y) == x.rank < y.rank \/ (x.rank = y.rank /\ x.b < y.b)
AllRequests(reqs, startAfter, limit) == Take(SortSeq(SetToSeq(reqs), ReqLess), limit)

\* iterating pages of size k from no cursor
RECURSIVE Chain(_, _, _, _, _)
Chain(store, k, filter, cursor, fuel) ==
  LET p == PageIds(store, cursor, k, filter) IN
  IF p = << >> \/ fuel = 0 THEN << >> ELSE p \o Chain(store, k, filter, p[Len(p)], fuel - 1)
AllMatchingIds(store, filter) == PageIds(store, NoCursor, NoLimit, filter)
=============================================================================
