------------------------------ MODULE Queries ------------------------------
(***************************************************************************)
(* The read side of the staking contract (query.rs, helpers.rs             *)
(* paginate_map): paging over an id-ordered store with an exclusive start  *)
(* cursor, a limit that counts MATCHING items, and an optional filter;     *)
(* lookup by id list; the per-user request index.                          *)
(* A store is a sequence of [id, tag] records in ascending id order        *)
(* (tag = batch status, or "" where no filter exists).                     *)
(***************************************************************************)
EXTENDS Integers, Sequences, FiniteSets, SequencesExt

NoCursor == -1
NoLimit == -1
NoFilter == ""

Matching(store, startAfter, filter) ==
  SelectSeq(store, LAMBDA r : (startAfter = NoCursor \/ r.id > startAfter) /\ (filter = NoFilter \/ r.tag = filter))
Take(s, n) == IF n = NoLimit \/ n >= Len(s) THEN s ELSE SubSeq(s, 1, n)
\* Batches{start_after, limit, status} / IbcQueue{start_after, limit}
Page(store, startAfter, limit, filter) == Take(Matching(store, startAfter, filter), limit)
PageIds(store, startAfter, limit, filter) == [i \in DOMAIN Page(store, startAfter, limit, filter) |-> Page(store, startAfter, limit, filter)[i].id]

\* BatchesByIds{ids}: exactly the existing requested batches, in request order
ByIds(store, ids) == SelectSeq(ids, LAMBDA x : \E i \in DOMAIN store : store[i].id = x)

\* UnstakeRequests{user}: that user's open requests over all batches, ascending batch id
RequestsOf(reqs, user) == {<<r.b, r.amt>> : r \in {q \in reqs : q.u = user}}

\* iterating pages of size k from no cursor
RECURSIVE Chain(_, _, _, _, _)
Chain(store, k, filter, cursor, fuel) ==
  LET p == PageIds(store, cursor, k, filter) IN
  IF p = << >> \/ fuel = 0 THEN << >> ELSE p \o Chain(store, k, filter, p[Len(p)], fuel - 1)
AllMatchingIds(store, filter) == PageIds(store, NoCursor, NoLimit, filter)
=============================================================================
