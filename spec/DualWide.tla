------------------------------ MODULE DualWide ------------------------------
(***************************************************************************)
(* C19 at 128-bit scale: the wide-range driver (amounts up to 10^27, rates *)
(* within [10^-3, 10^3]) run with the same seeds through the Osmosis and   *)
(* the miniwasm build. The recorded lines carry the call kind and the      *)
(* outcome class only (the values do not fit TLC's integers); the two      *)
(* builds must agree on every line: same call, same outcome (accepted /    *)
(* refused / panic), same answer of the queries issued after it. A stake   *)
(* that one build's token-factory glue refuses (an amount it cannot carry) *)
(* and the other mints shows up here.                                      *)
(***************************************************************************)
EXTENDS Integers, Sequences, FiniteSets, TLC, Json, IOUtils

A == ndJsonDeserialize(IOEnv.TRACE_A)
B == ndJsonDeserialize(IOEnv.TRACE_B)
\* (once the two builds disagree the walks part ways: the remaining lines are compared as far as both exist and a
\*  difference in length is itself reported)
N == IF Len(A) <= Len(B) THEN Len(A) ELSE Len(B)
Class(e) == IF e.res.panic THEN "panic" ELSE IF e.res.ok THEN "ok" ELSE "refused"
Differs(i) ==
  (IF A[i].call # B[i].call \/ A[i].parent # B[i].parent THEN {"call"} ELSE {})
  \cup (IF Class(A[i]) # Class(B[i]) THEN {"outcome: " \o Class(A[i]) \o " (osmosis) vs " \o Class(B[i]) \o " (miniwasm)"} ELSE {})
  \cup (IF (A[i].qpanic = "") # (B[i].qpanic = "") THEN {"queries"} ELSE {})

VARIABLES l, nfind
TInit == l = 1 /\ nfind = 0
TNext == /\ l <= N
         /\ LET D == Differs(l) IN
              /\ nfind' = nfind + Cardinality(D)
              /\ IF D = {} THEN TRUE
                 ELSE PrintT("FINDING " \o ToJson([i |-> l, fs |-> {[l |-> l, kind |-> "dual", m |-> A[l].call.m, atom |-> d, props |-> {"C19"}] : d \in D}]))
         /\ l' = l + 1
TSpec == TInit /\ [][TNext]_<<l, nfind>>
Accepted == IF TLCGet("stats").diameter - 1 = N
            THEN /\ (Len(A) = Len(B) \/ PrintT("FINDING " \o ToJson([i |-> N, fs |-> {[l |-> N, kind |-> "dual", m |-> "length", atom |-> "the two builds' walks have different lengths", props |-> {"C19"}]}])))
                 /\ PrintT("TRACE-CONSUMED " \o ToString(N))
            ELSE PrintT("TRACE-STUCK " \o ToString(Len(A)) \o " vs " \o ToString(Len(B))) /\ FALSE
=============================================================================
