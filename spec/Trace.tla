------------------------------- MODULE Trace -------------------------------
(***************************************************************************)
(* Trace validation: every line of an NDJSON trace recorded from the REAL  *)
(* contract (harness/src/run.rs) is one transaction or environment event   *)
(*     [parent, call, res, post]                                           *)
(* `parent` is the line whose post-state this step started from (0 for the *)
(* instantiate line of a run), so linear runs, resets and the tree-shaped  *)
(* replays of TLC-generated tests all use one format.                      *)
(*                                                                         *)
(* For each line the SAME operator the model's Next uses, Chain!Exec, is   *)
(* applied to the recorded pre-state and its result is compared with what  *)
(* the code did, atom by atom; each differing atom, each refused-by-spec   *)
(* success, each unexpected failure and each violated invariant is         *)
(* attributed to the properties it concerns. The validator always follows  *)
(* the implementation's state, so one divergence does not cascade.         *)
(***************************************************************************)
EXTENDS Chain, Json, IOUtils

Rec == ndJsonDeserialize(IOEnv.TRACE)
NLines == Len(Rec)

\* ------------------------------------------------------------------ JSON -> spec-native world
NormCfg(j) ==
  [natPrefix |-> j.natPrefix, valPrefix |-> j.valPrefix, tokenDenom |-> j.tokenDenom,
   validators |-> ToSet(j.validators), unbonding |-> j.unbonding, staker |-> j.staker,
   collector |-> j.collector, protoPrefix |-> j.protoPrefix, channel |-> j.channel,
   natDen |-> j.natDen, minStake |-> j.minStake, oracle |-> j.oracle, fee |-> j.fee,
   treasury |-> j.treasury, monitors |-> ToSet(j.monitors), batchPeriod |-> j.batchPeriod, lst |-> j.lst]
NormC(j) ==
  [stopped |-> j.stopped, admin |-> j.admin, pending |-> j.pending, minTime |-> j.minTime,
   N |-> j.N, L |-> j.L, fees |-> j.fees, rewards |-> j.rewards, pend |-> j.pend,
   batches |-> j.batches, reqs |-> ToSet(j.reqs), pk |-> ToSet(j.pk), waiting |-> j.waiting,
   cfg |-> NormCfg(j.cfg)]
FnOf(arr, K(_), V(_)) == [k \in {K(r) : r \in ToSet(arr)} |-> V(CHOOSE r \in ToSet(arr) : K(r) = k)]
NormW(j) ==
  [c |-> NormC(j.c),
   bank |-> FnOf(j.bank, LAMBDA r : <<r.a, r.d>>, LAMBDA r : r.x),
   sup |-> j.sup,
   ibc |-> [next |-> j.ibc.next, fly |-> ToSet(j.ibc.fly)],
   nat |-> [bal |-> FnOf(j.nat.bal, LAMBDA r : r.a, LAMBDA r : r.x),
            lst |-> FnOf(j.nat.lst, LAMBDA r : r.a, LAMBDA r : r.x)],
   led |-> [swept |-> j.led.swept, radjN |-> j.led.radjN, radjL |-> j.led.radjL,
            paid |-> FnOf(j.led.paid, LAMBDA r : r.b, LAMBDA r : r.x),
            wdl |-> FnOf(j.led.wdl, LAMBDA r : r.b, LAMBDA r : r.x),
            deliv |-> j.led.deliv, honest |-> j.led.honest, forced |-> j.led.forced, repointed |-> j.led.repointed],
   now |-> j.now,
   t |-> [inst |-> j.t.inst, admin |-> j.t.admin, pending |-> j.t.pending, minTime |-> j.t.minTime,
          trader |-> j.t.trader, routes |-> j.t.routes]]

\* evaluated once (constant level): the observed world after every line
W == [i \in 1..NLines |-> NormW(Rec[i].post)]

\* ------------------------------------------------------------------ the instantiate line
SetupCfg(s) ==
  LET np == IF s.samePrefix THEN "osmo" ELSE "celestia" IN
  [natPrefix |-> np, valPrefix |-> np \o "valoper", tokenDenom |-> "utia", validators |-> {"val1", "val2"},
   unbonding |-> s.unbonding, staker |-> "staker", collector |-> "collector", protoPrefix |-> "osmo",
   channel |-> "channel-1", natDen |-> "IBCTIA", minStake |-> s.minStake, oracle |-> s.oracle, fee |-> s.fee,
   treasury |-> s.treasury, monitors |-> ToSet(s.monitors), batchPeriod |-> s.batchPeriod, lst |-> "LST"]
TfFamily(s) == IF s.miniwasm THEN "/miniwasm.tokenfactory.v1." ELSE "/osmosis.tokenfactory.v1beta1."

\* ------------------------------------------------------------------ comparison atoms
BatchAtom(p, o, f) == \E b \in 1..Len(p.c.batches) : b <= Len(o.c.batches) /\ p.c.batches[b][f] # o.c.batches[b][f]
BankAtom(p, o, own, lst) ==
  \E k \in DOMAIN p.bank \cup DOMAIN o.bank :
     /\ (k[1] = Contract) = own
     /\ (k[2] = LstDen(o)) = lst
     /\ Bal(p.bank, k[1], k[2]) # Bal(o.bank, k[1], k[2])
FnAtom(f, g) == \E k \in DOMAIN f \cup DOMAIN g : Get(f, k) # Get(g, k)

StateAtoms(p, o) ==
  R(p.c.stopped # o.c.stopped, "c.stopped") \cup R(p.c.admin # o.c.admin, "c.admin")
  \cup R(p.c.pending # o.c.pending, "c.pending") \cup R(p.c.minTime # o.c.minTime, "c.minTime")
  \cup R(p.c.N # o.c.N, "c.N") \cup R(p.c.L # o.c.L, "c.L") \cup R(p.c.fees # o.c.fees, "c.fees")
  \cup R(p.c.rewards # o.c.rewards, "c.rewards") \cup R(p.c.pend # o.c.pend, "c.pend")
  \cup R(Len(p.c.batches) # Len(o.c.batches), "b.len")
  \cup R(BatchAtom(p, o, "id"), "b.id") \cup R(BatchAtom(p, o, "status"), "b.status")
  \cup R(BatchAtom(p, o, "due"), "b.due") \cup R(BatchAtom(p, o, "expected"), "b.expected")
  \cup R(BatchAtom(p, o, "received"), "b.received") \cup R(BatchAtom(p, o, "total"), "b.total")
  \cup R(BatchAtom(p, o, "cnt"), "b.cnt")
  \cup R(p.c.reqs # o.c.reqs, "c.reqs") \cup R(p.c.pk # o.c.pk, "c.pk")
  \cup R(p.c.waiting # o.c.waiting, "c.waiting")
  \* the configuration by concern, so that a wrong update is reported under the property that depends on it
  \cup R(p.c.cfg.fee # o.c.cfg.fee \/ p.c.cfg.treasury # o.c.cfg.treasury, "c.cfg.fee")
  \cup R(p.c.cfg.oracle # o.c.cfg.oracle, "c.cfg.oracle")
  \cup R(p.c.cfg.channel # o.c.cfg.channel \/ p.c.cfg.staker # o.c.cfg.staker \/ p.c.cfg.collector # o.c.cfg.collector
          \/ p.c.cfg.protoPrefix # o.c.cfg.protoPrefix, "c.cfg.hooks")
  \cup R(p.c.cfg.monitors # o.c.cfg.monitors, "c.cfg.monitors")
  \cup R(p.c.cfg.batchPeriod # o.c.cfg.batchPeriod \/ p.c.cfg.unbonding # o.c.cfg.unbonding, "c.cfg.periods")
  \cup R(p.c.cfg.minStake # o.c.cfg.minStake, "c.cfg.minStake")
  \cup R(p.c.cfg # o.c.cfg, "c.cfg")
  \cup R(BankAtom(p, o, TRUE, FALSE), "bank.contract.nat") \cup R(BankAtom(p, o, TRUE, TRUE), "bank.contract.lst")
  \cup R(BankAtom(p, o, FALSE, FALSE), "bank.other.nat") \cup R(BankAtom(p, o, FALSE, TRUE), "bank.other.lst")
  \cup R(p.sup # o.sup, "sup") \cup R(p.ibc.next # o.ibc.next, "ibc.next") \cup R(p.ibc.fly # o.ibc.fly, "ibc.fly")
  \cup R(FnAtom(p.nat.bal, o.nat.bal), "nat.bal") \cup R(FnAtom(p.nat.lst, o.nat.lst), "nat.lst")
  \cup R(p.led.swept # o.led.swept, "led.swept") \cup R(FnAtom(p.led.paid, o.led.paid), "led.paid")
  \cup R(FnAtom(p.led.wdl, o.led.wdl), "led.wdl") \cup R(p.led.deliv # o.led.deliv, "led.deliv")
  \cup R(p.led.radjN # o.led.radjN \/ p.led.radjL # o.led.radjL, "led.radj")
  \cup R(p.now # o.now, "now")
  \cup R(TOwn(p.t) # TOwn(o.t), "t.own") \cup R(p.t.inst # o.t.inst \/ p.t.trader # o.t.trader \/ p.t.routes # o.t.routes, "t.cfg")

\* messages are compared kind by kind (relative order of different kinds is not part of any property)
IsKind(m, k, lstDen, wantLst) ==
  /\ m.k = k
  /\ (k \in {"send", "ibc"}) => ((m.den = lstDen) = wantLst)
Sub(ms, k, lstDen, wantLst) == SelectSeq(ms, LAMBDA m : IsKind(m, k, lstDen, wantLst))
ProjOn(m, p) == [f \in DOMAIN p |-> IF f \in DOMAIN m THEN m[f] ELSE "<missing>"]
SameKind(pm, om, k, lstDen, wantLst) ==
  LET P == Sub(pm, k, lstDen, wantLst)  O == Sub(om, k, lstDen, wantLst)
  IN Len(P) = Len(O) /\ \A i \in DOMAIN P : ProjOn(O[i], P[i]) = P[i]
\* Withdraw changes no total: its oracle post is optional, but if made it must carry the right rates
OracleOk(pm, om, m, lstDen) ==
  IF m = "withdraw"
  THEN \A x \in ToSet(Sub(om, "oracle", lstDen, FALSE)) : \E y \in ToSet(Sub(pm, "oracle", lstDen, FALSE)) : ProjOn(x, y) = y
  ELSE SameKind(pm, om, "oracle", lstDen, FALSE)
KnownKinds == {"tf_mint", "tf_burn", "send", "ibc", "oracle", "tf_create", "swap_in", "swap_out", "t_send", "t_ibc"}
MsgAtoms(pm, om, m, lstDen) ==
  R(~SameKind(pm, om, "tf_mint", lstDen, FALSE), "msg.tf_mint")
  \cup R(~SameKind(pm, om, "tf_burn", lstDen, FALSE), "msg.tf_burn")
  \cup R(~SameKind(pm, om, "send", lstDen, FALSE), "msg.send.nat")
  \cup R(~SameKind(pm, om, "send", lstDen, TRUE), "msg.send.lst")
  \cup R(~SameKind(pm, om, "ibc", lstDen, FALSE), "msg.ibc.nat")
  \cup R(~SameKind(pm, om, "ibc", lstDen, TRUE), "msg.ibc.lst")
  \cup R(~OracleOk(pm, om, m, lstDen), "msg.oracle")
  \cup R(~SameKind(pm, om, "swap_in", lstDen, FALSE) \/ ~SameKind(pm, om, "swap_out", lstDen, FALSE), "msg.swap")
  \cup R(~SameKind(pm, om, "t_send", lstDen, FALSE) \/ ~SameKind(pm, om, "t_ibc", lstDen, FALSE), "msg.t_spend")
  \cup R(\E x \in ToSet(om) : x.k \notin KnownKinds, "msg.unknown")
\* wire-level facts recorded by the simulator's own protobuf reader (C19)
WireAtoms(om, fam) ==
  R(\E x \in ToSet(om) : "canon" \in DOMAIN x /\ ~x.canon, "wire.canon")
  \cup R(\E x \in ToSet(om) : x.k \in {"tf_mint", "tf_burn", "tf_create"} /\
            x.url # fam \o (CASE x.k = "tf_mint" -> "MsgMint" [] x.k = "tf_burn" -> "MsgBurn" [] OTHER -> "MsgCreateDenom"),
       "wire.url")

\* ------------------------------------------------------------------ attribution to properties
Inner(call) == IF call.m = "hook" THEN call.inner ELSE call.m
AtomProps(atom, m) ==
  (CASE atom = "c.stopped" -> {"C10"}
     [] atom \in {"c.admin", "c.pending", "c.minTime"} ->
          {"C12"} \cup R(m \in {"transfer_ownership", "revoke_ownership_transfer", "accept_ownership"}, "C08")
     [] atom = "c.N" -> {"C01"} \cup R(m = "receive_rewards", "C11") \cup R(m \in {"liquid_stake", "submit_batch"}, "C04")
     [] atom = "c.L" -> {"C03"} \cup R(m \in {"liquid_stake", "submit_batch"}, "C04")
     [] atom = "c.fees" -> {"C11"} \cup (IF m = "liquid_stake" THEN {"C01", "C02"} ELSE {})
     [] atom = "c.rewards" -> {"C11"}
     [] atom \in {"c.pend", "b.len", "b.id", "b.status", "b.due"} -> {"C06"}
     [] atom = "b.expected" -> {"C01", "C04", "C06"}
     \* (C05: the payouts of a batch are shares of what WAS received for it - a record that understates the delivery
     \*  underpays every requester)
     [] atom = "b.received" -> {"C02", "C06", "C05"}
     [] atom \in {"b.total", "b.cnt", "led.wdl"} -> {"C05"}
     \* (the per-user view of the open requests is what the UnstakeRequests query reports: C17)
     [] atom = "c.reqs" -> {"C05", "C17"}
     [] atom \in {"c.pk", "c.waiting", "ibc.next", "ibc.fly"} -> {"C07"}
     [] atom = "c.cfg" -> {"C14"}
     [] atom = "c.cfg.fee" -> {"C14", "C11"}
     [] atom = "c.cfg.oracle" -> {"C14", "C15"}
     [] atom = "c.cfg.hooks" -> {"C14", "C09"}
     [] atom = "c.cfg.monitors" -> {"C14", "C10", "C08"}
     [] atom = "c.cfg.periods" -> {"C14", "C06"}
     [] atom = "c.cfg.minStake" -> {"C14", "C04"}
     [] atom = "bank.contract.nat" -> {"C02"}
     [] atom \in {"bank.contract.lst", "bank.other.lst", "sup", "nat.lst"} -> {"C03"}
     [] atom = "bank.other.nat" -> {"C02"} \cup R(m = "withdraw", "C05") \cup R(m \in {"receive_rewards", "fee_withdraw"}, "C11")
     [] atom \in {"nat.bal", "led.deliv"} -> {"C01"}
     [] atom = "led.swept" -> {"C01", "C02"}
     [] atom = "led.paid" -> {"C02", "C05"}
     [] atom = "led.radj" -> {"C10"}
     [] atom = "now" -> {}
     \* (who administers the treasury decides who may spend and reconfigure it: C13 when set by the instantiation)
     [] atom = "t.own" -> {"C12"} \cup R(m = "t_instantiate", "C13")
     [] atom \in {"t.cfg", "msg.swap", "msg.t_spend"} -> {"C13"}
     [] atom = "msg.tf_mint" -> {"C03", "C04", "C19"}
     [] atom = "msg.tf_burn" -> {"C03", "C19"}
     [] atom = "msg.send.nat" -> {"C02"} \cup R(m = "withdraw", "C05") \cup R(m \in {"receive_rewards", "fee_withdraw"}, "C11")
     [] atom = "msg.send.lst" -> {"C03"}
     [] atom = "msg.ibc.nat" -> {"C01", "C07"} \cup R(m = "receive_rewards", "C11")
     [] atom = "msg.ibc.lst" -> {"C03", "C07"} \cup R(m = "liquid_stake", "C04")
     [] atom = "msg.oracle" -> {"C15"}
     [] atom = "msg.unknown" -> {"C07"}
     [] atom \in {"wire.canon", "wire.url"} -> {"C19"})
  \cup R(m \in {"migrate_roundtrip", "migrate_from_0_4_20"}, "C18")
  \* (a wrong LST denom after an upgrade is a C19 matter: it is the denom of every later mint and burn)
  \cup R(m = "migrate_from_0_4_20" /\ atom = "c.cfg", "C19")
  \* (who holds which role - staker, reward collector, monitors, admin - changes only through the authorised messages: C08)
  \cup R(m = "migrate_from_0_4_20" /\ atom \in {"c.cfg.hooks", "c.cfg.monitors", "c.admin"}, "C08")
  \* halting / resuming may change nothing but the flag (and the three totals)
  \cup R(m \in {"circuit_breaker", "resume_contract"} /\ atom # "msg.oracle", "C10")

ReasonProps(reason, m) ==
  CASE reason = "halted" -> {"C10"}
    [] reason \in {"payment", "mint_to_required", "bad_recipient", "insufficient_lst", "burn_overdraft"} -> {"C03"}
    [] reason \in {"below_min", "zero_mint", "slippage"} -> {"C04"}
    [] reason \in {"not_due", "empty_batch", "not_submitted"} -> {"C06"}
    [] reason = "no_batch" -> IF m = "withdraw" THEN {"C05"} ELSE {"C06"}
    [] reason = "not_received" -> {"C05"}
    [] reason = "no_request" -> {"C05", "C08"}
    [] reason \in {"no_lst", "fee_exceeds_reward"} -> {"C11"}
    \* (C06: a batch becomes Received only through a payment by the authenticated staker)
    [] reason = "unauthorized_hook" -> {"C08", "C09"} \cup R(m = "receive_unstaked_tokens", "C06")
    \* (a batch booked as Received without a staked-asset payment pays its requesters out of other people's money: C05)
    [] reason = "no_funds" -> IF m = "receive_rewards" THEN {"C11"} ELSE {"C06", "C05"}
    [] reason \in {"not_trader", "route_not_allowed", "denom_mismatch", "bad_local_receiver", "bad_ibc_receiver"} -> {"C13"}
    [] reason = "unauthorized" /\ m \in {"t_spend", "t_update_config"} -> {"C13"}
    [] reason = "unauthorized" /\ m \in {"t_transfer_ownership", "t_revoke_ownership_transfer"} -> {"C12"}
    [] reason \in {"too_early", "not_nominee"} /\ m = "t_accept_ownership" -> {"C12"}
    [] reason = "unauthorized" -> {"C08"} \cup R(m \in {"circuit_breaker", "resume_contract"}, "C10")
                                  \cup R(m \in {"transfer_ownership", "revoke_ownership_transfer"}, "C12")
                                  \cup R(m = "recover", "C07")
    [] reason \in {"insufficient_fees", "no_treasury"} -> {"C11", "C02"}
    \* (a recovery the model refuses re-sends value that was not refundable to that receiver: besides C07 it forwards
    \*  staked asset / LST to somebody it does not belong to - C01, C03)
    [] reason \in {"unknown_packet", "wrong_receiver", "nothing_to_recover", "mixed_denoms"} -> {"C07", "C01", "C03"}
    [] reason \in {"bad_receiver", "ibc_submit_failed"} -> {"C07"}
    [] reason \in {"duplicate", "not_found", "invalid_config"} -> {"C14"}
    [] reason = "invalid_address" -> IF m = "transfer_ownership" THEN {} ELSE {"C14"}
    [] reason \in {"too_early", "not_nominee"} -> {"C12", "C08"}
    [] reason = "bank_overdraft" -> {"C02"}
    [] OTHER -> {}

\* properties that state a success condition for this call (spec ok, code error)
SuccessProps(w, call) ==
  LET m == Inner(call) IN
  (CASE m = "withdraw" -> {"C02", "C05"}
     [] m = "fee_withdraw" -> {"C02", "C11"}
     \* (a refund that cannot be re-sent although it should be: the staked asset / LST it carries never reaches its receiver)
     [] m = "recover" -> {"C02", "C07", "C01", "C03"}
     [] m = "submit_batch" -> {"C06"}
     \* (a payment at or above the minimum that mints a non-zero amount is accepted: C04; to the chosen recipient: C03)
     [] m = "liquid_stake" -> {"C04", "C03"}
     [] m = "liquid_unstake" -> {"C05"}
     [] m = "receive_unstaked_tokens" -> {"C06", "C09"}
     [] m = "receive_rewards" -> {"C09", "C11"}
     [] m \in {"circuit_breaker", "resume_contract"} -> {"C10"}
     [] m \in {"accept_ownership", "transfer_ownership", "revoke_ownership_transfer",
               "t_accept_ownership", "t_transfer_ownership", "t_revoke_ownership_transfer"} -> {"C12"}
     [] m \in {"t_swap_in", "t_swap_out", "t_spend", "t_update_config"} -> {"C13"}
     [] m \in {"migrate_roundtrip", "migrate_from_0_4_20"} -> {"C18"}
     [] OTHER -> {})
  \cup R(w.c.cfg.oracle = None /\ m \in {"liquid_stake", "submit_batch", "withdraw", "receive_rewards", "resume_contract"}, "C15")

InvProps(w) ==
  R(~Inv_C01(w), "C01") \cup R(~Inv_C01b(w), "C01") \cup R(~Inv_C01c(w), "C01") \cup R(~Inv_C01c(w), "C07") \cup R(~Inv_C02(w), "C02") \cup R(~Inv_C03(w), "C03")
  \cup R(~Inv_C05(w), "C05") \cup R(~Inv_C06(w), "C06") \cup R(~Inv_C07(w), "C07") \cup R(~Inv_C11(w), "C11")
  \cup R(~NonNeg(w), "C02")
InvNames(w) ==
  R(~Inv_C01(w), "Inv_C01") \cup R(~Inv_C01b(w), "Inv_C01b") \cup R(~Inv_C01c(w), "Inv_C01c") \cup R(~Inv_C02(w), "Inv_C02") \cup R(~Inv_C03(w), "Inv_C03")
  \cup R(~Inv_C05(w), "Inv_C05") \cup R(~Inv_C06(w), "Inv_C06") \cup R(~Inv_C07(w), "Inv_C07") \cup R(~Inv_C11(w), "Inv_C11")
  \cup R(~NonNeg(w), "NonNeg")

PropOfInv(n) == CASE n \in {"Inv_C01", "Inv_C01b"} -> {"C01"} [] n = "Inv_C01c" -> {"C01", "C07"} [] n \in {"Inv_C02", "NonNeg"} -> {"C02"} [] n = "Inv_C03" -> {"C03"}
                  [] n = "Inv_C05" -> {"C05"} [] n = "Inv_C06" -> {"C06"} [] n = "Inv_C07" -> {"C07"} [] n = "Inv_C11" -> {"C11"}

\* ------------------------------------------------------------------ verdict of one line
Findings(l) ==
  LET e == Rec[l]
      call == e.call
      o == W[l]
  IN
  IF call.m = "instantiate"
  THEN LET p == InitWorld(SetupCfg(call.cfg), call.s, o.now, << >>)
           atoms == StateAtoms(p, o) \cup WireAtoms(e.res.msgs, TfFamily(call.cfg))
                    \cup R(~e.res.ok, "instantiate.failed")
                    \cup R(~(Len(e.res.msgs) = 1 /\ e.res.msgs[1].k = "tf_create" /\ e.res.msgs[1].sub = call.cfg.sub
                             /\ e.res.msgs[1].sender = Contract), "msg.tf_create")
       IN {[l |-> l, kind |-> "diff", m |-> "instantiate", atom |-> a,
            props |-> IF a \in {"wire.canon", "wire.url", "msg.tf_create"} THEN {"C19"}
                      ELSE IF a = "c.stopped" THEN {"C10"}
                      ELSE IF a = "c.cfg" THEN {"C14", "C19"} ELSE {"C14"}] : a \in atoms}
          \cup {[l |-> l, kind |-> "inv", m |-> "instantiate", atom |-> n, props |-> PropOfInv(n)] : n \in InvNames(o)}
  ELSE
  LET pre == W[e.parent]
      r == Exec(pre, call)
      m == Inner(call)
      fam == IF e.build = "miniwasm" THEN "/miniwasm.tokenfactory.v1." ELSE "/osmosis.tokenfactory.v1beta1."
      \* (a rate-changing operation that panics posts no rates: C15 as well)
      panic == {[l |-> l, kind |-> "panic", m |-> m, atom |-> "panic",
                 props |-> {"C16"} \cup R(m \in {"liquid_stake", "submit_batch", "receive_rewards", "resume_contract"}, "C15")] : x \in R(e.res.panic, 1)}
      cmp ==
        IF r.ok /\ e.res.ok
        THEN {[l |-> l, kind |-> "diff", m |-> m, atom |-> a,
               \* C15: without an oracle the rate-changing operations have the same effects as with one - every
               \* difference from the model's prediction on such a call is also a C15 finding
               props |-> AtomProps(a, m) \cup R(pre.c.cfg.oracle = None /\ a # "now" /\
                                                 m \in {"liquid_stake", "submit_batch", "receive_rewards", "resume_contract"}, "C15")] :
                a \in StateAtoms(r.w, o) \cup MsgAtoms(r.msgs, e.res.msgs, m, LstDen(o)) \cup WireAtoms(e.res.msgs, fam)}
        ELSE IF ~r.ok /\ e.res.ok
        THEN {[l |-> l, kind |-> "forbidden_success", m |-> m, atom |-> y, props |-> ReasonProps(y, m)] : y \in r.why}
        ELSE IF r.ok /\ ~e.res.ok
        THEN {[l |-> l, kind |-> "unexpected_failure", m |-> m, atom |-> e.res.err, props |-> SuccessProps(pre, call)]}
        ELSE \* both refuse: a refused transaction changes nothing
             {[l |-> l, kind |-> "diff", m |-> m, atom |-> a, props |-> {"C08"} \cup AtomProps(a, m)] : a \in StateAtoms(pre, o) \ {"now"}}
      inv == {[l |-> l, kind |-> "inv", m |-> m, atom |-> n, props |-> PropOfInv(n)] : n \in InvNames(o)}
      \* C15: the State query reports the purchase rate LST / staked of the stored totals
      qrate == {[l |-> l, kind |-> "inv", m |-> m, atom |-> "State.rate", props |-> {"C15"}] :
                  x \in R(~e.post.c.stateErr /\ (o.c.L = 0 \/ o.c.N > 0) /\ e.post.c.rate # Rates(o.c.N, o.c.L)[2], 1)}
      \* ... and the State query answers at all whenever the rate is defined (no LST, or LST backed by a positive total)
      qerr == {[l |-> l, kind |-> "inv", m |-> m, atom |-> "State.query_failed", props |-> {"C15", "C16"}] :
                  x \in R(e.post.c.stateErr /\ (o.c.L = 0 \/ o.c.N > 0), 1)}
      tq == {[l |-> l, kind |-> "panic", m |-> m, atom |-> "treasury Config query panics", props |-> {"C16"}] : x \in R(e.post.t.qpanic, 1)}
      act == {[l |-> l, kind |-> "act", m |-> m, atom |-> "Act_C06", props |-> {"C06"}] : x \in R(~Act_C06(pre, o), 1)}
             \cup {[l |-> l, kind |-> "act", m |-> m, atom |-> "Act_C04", props |-> {"C04"}] :
                     x \in R(e.res.ok /\ ~Act_C04(pre, o, [m |-> m]), 1)}
             \cup {[l |-> l, kind |-> "act", m |-> m, atom |-> "Act_C11", props |-> {"C11"}] :
                     x \in R(e.res.ok /\ m = "receive_rewards" /\ ~Act_C11(pre, o, e.res.msgs), 1)}
  IN panic \cup cmp \cup inv \cup qrate \cup qerr \cup tq \cup act

\* ------------------------------------------------------------------ the trace as a behaviour
VARIABLES l, nfind
TInit == l = 1 /\ nfind = 0
TNext ==
  /\ l <= NLines
  /\ LET F == Findings(l) IN
       /\ nfind' = nfind + Cardinality(F)
       /\ IF F = {} THEN TRUE ELSE PrintT("FINDING " \o ToJson([i |-> Rec[l].i, fs |-> F]))
  /\ l' = l + 1
TSpec == TInit /\ [][TNext]_<<l, nfind>>

\* all lines consumed (one state per line plus the initial one)
Accepted ==
  IF TLCGet("stats").diameter - 1 = NLines THEN PrintT("TRACE-CONSUMED " \o ToString(NLines))
  ELSE PrintT("TRACE-STUCK at line " \o ToString(TLCGet("stats").diameter)) /\ FALSE
=============================================================================
