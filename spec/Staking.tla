------------------------------ MODULE Staking ------------------------------
(***************************************************************************)
(* The staking contract as a deterministic function                        *)
(*     Apply(c, call, now) = [ok, c, msgs, why]                            *)
(* c     : the contract's storage (abstract, see DESIGN Appendix C)        *)
(* call  : one execute message with its sender, funds and the facts about  *)
(*         its string arguments that the environment establishes (address  *)
(*         class, sender kind, ibc-hooks origin)                           *)
(* msgs  : the abstract messages the handler returns, in order; they are   *)
(*         executed by Chain.tla (bank, token factory, IBC with reply)     *)
(* why   : when ok = FALSE, the set of ALL reasons for which the call is   *)
(*         refused (each reason belongs to a property, see Trace.tla).     *)
(* One operator per ExecuteMsg variant (contract.rs `execute`).            *)
(***************************************************************************)
EXTENDS Integers, Sequences, FiniteSets, FiniteSetsExt, SequencesExt, Arith, Ownership

None == ""        \* absent optional address / string
NoAmt == -1       \* absent optional amount / time
RecoverPageSize == 10             \* execute.rs recover
IbcTimeoutSecs == 1000            \* contract.rs IBC_TIMEOUT
HookDenom == "IBCTIA"             \* voucher denom credited by the IBC module

R(cond, name) == IF cond THEN {name} ELSE {}
Err(c, why) == [ok |-> FALSE, c |-> c, msgs |-> << >>, why |-> why]
Ok(c, msgs) == [ok |-> TRUE, c |-> c, msgs |-> msgs, why |-> {}]

\* ibc-hooks intermediate account of (channel, native sender): an injective naming
HookName(channel, from) == "hook|" \o channel \o "|" \o from

---------------------------------------------------------------------------
\* funds helpers (cw_utils::must_pay and the `find` used by the Receive* handlers)
PaysExactly(funds, den) == Len(funds) = 1 /\ funds[1][1] = den /\ funds[1][2] > 0
CoinsOf(funds, den) == SelectSeq(funds, LAMBDA f : f[1] = den)
HasCoin(funds, den) == CoinsOf(funds, den) # << >>
FirstCoin(funds, den) == CoinsOf(funds, den)[1][2]

\* request table: set of records [b, u, amt], at most one per (b, u)
ReqsOf(c, b, u) == {r \in c.reqs : r.b = b /\ r.u = u}
ReqAmt(c, b, u) == IF ReqsOf(c, b, u) = {} THEN 0 ELSE (CHOOSE r \in ReqsOf(c, b, u) : TRUE).amt
BatchIds(c) == 1..Len(c.batches)

\* emitted messages
TfMint(c, amt)      == [k |-> "tf_mint", den |-> c.cfg.lst, amt |-> amt, to |-> "contract", sender |-> "contract"]
TfBurn(c, amt)      == [k |-> "tf_burn", den |-> c.cfg.lst, amt |-> amt, from |-> "contract", sender |-> "contract"]
Send(to, den, amt)  == [k |-> "send", to |-> to, den |-> den, amt |-> amt]
Ibc(den, amt, rcv)  == [k |-> "ibc", den |-> den, amt |-> amt, rcv |-> rcv]
\* the rates posted are those of the state AFTER the transaction (C15)
OracleMsgs(c1) == IF c1.cfg.oracle = None THEN << >>
                  ELSE <<[k |-> "oracle", to |-> c1.cfg.oracle, den |-> c1.cfg.lst,
                          red |-> Rates(c1.N, c1.L)[1], pur |-> Rates(c1.N, c1.L)[2]]>>

---------------------------------------------------------------------------
\* execute.rs execute_liquid_stake
LiquidStake(c, call) ==
  LET payOk == PaysExactly(call.funds, c.cfg.natDen)
      a     == IF payOk THEN call.funds[1][2] ELSE 0
      \* ownerless stake (L = 0, N # 0) is swept to the fee balance first
      sweep == c.L = 0 /\ c.N # 0
      N0    == IF sweep THEN 0 ELSE c.N
      fees0 == IF sweep THEN c.fees + c.N ELSE c.fees
      m     == MintAmount(N0, c.L, a)
      toProto == call.rclass = "protocol" \/ (call.rclass = "both" /\ call.to_native # "true")
      why == R(c.stopped, "halted")
             \cup R(~payOk, "payment")
             \cup R(call.mint_to = None /\ call.skind # "eoa", "mint_to_required")
             \cup R(call.rclass = "invalid", "bad_recipient")
             \cup R(payOk /\ a < c.cfg.minStake, "below_min")
             \cup R(payOk /\ m = 0, "zero_mint")
             \cup R(payOk /\ call.expected # NoAmt /\ m < call.expected, "slippage")
      c1 == [c EXCEPT !.N = N0 + a, !.L = c.L + m, !.fees = fees0]
      msgs == <<TfMint(c, m)>> \o OracleMsgs(c1) \o <<Ibc(c.cfg.natDen, a, c.cfg.staker)>>
              \o (IF toProto THEN <<Send(call.r, c.cfg.lst, m)>> ELSE <<Ibc(c.cfg.lst, m, call.r)>>)
  IN IF why # {} THEN Err(c, why) ELSE Ok(c1, msgs)

\* execute.rs execute_liquid_unstake
LiquidUnstake(c, call) ==
  LET payOk == PaysExactly(call.funds, c.cfg.lst)
      a == IF payOk THEN call.funds[1][2] ELSE 0
      b == c.pend
      u == call.s
      isNew == ReqsOf(c, b, u) = {}
      why == R(c.stopped, "halted") \cup R(~payOk, "payment")
      c1 == [c EXCEPT !.reqs = (c.reqs \ ReqsOf(c, b, u)) \cup {[b |-> b, u |-> u, amt |-> ReqAmt(c, b, u) + a]},
                      !.batches[b].total = @ + a,
                      !.batches[b].cnt = @ + (IF isNew THEN 1 ELSE 0)]
  IN IF why # {} THEN Err(c, why) ELSE Ok(c1, << >>)

NewBatch(id, due) == [id |-> id, total |-> 0, expected |-> NoAmt, received |-> NoAmt, cnt |-> 0,
                      due |-> due, status |-> "pending"]

\* execute.rs execute_submit_batch (permissionless)
SubmitBatch(c, call, now) ==
  LET b  == c.pend
      bt == c.batches[b]
      why == IF b \notin BatchIds(c) THEN {"no_pending_batch"}      \* (observed stores only)
             ELSE R(c.stopped, "halted")
             \cup R(bt.due = NoAmt \/ now < bt.due, "not_due")
             \cup R({r \in c.reqs : r.b = b} = {}, "empty_batch")
             \cup R(c.L < bt.total, "insufficient_lst")
      ub == UnbondAmount(c.N, c.L, bt.total)
      c1 == [c EXCEPT !.N = IF ub <= c.N THEN c.N - ub ELSE 0,
                      !.L = c.L - bt.total,
                      !.pend = b + 1,
                      !.batches = Append([c.batches EXCEPT ![b].expected = ub, ![b].status = "submitted",
                                                           ![b].due = now + c.cfg.unbonding],
                                         NewBatch(b + 1, now + c.cfg.batchPeriod))]
  IN IF why # {} THEN Err(c, why) ELSE Ok(c1, <<TfBurn(c, bt.total)>> \o OracleMsgs(c1))

SafePayout(recv, own, total) == IF total = 0 THEN 0 ELSE Payout(recv, own, total)
\* execute.rs execute_withdraw; the oracle post it makes is optional (totals unchanged)
Withdraw(c, call) ==
  LET b == call.b
      known == b \in BatchIds(c)
      recvd == known /\ c.batches[b].status = "received"
      own == ReqAmt(c, b, call.s)
      why == R(c.stopped, "halted")
             \cup R(~known, "no_batch")
             \cup R(known /\ ~recvd, "not_received")
             \cup R(ReqsOf(c, b, call.s) = {}, "no_request")
             \* (no reachable store has a request in a batch whose total is zero; the validator also evaluates this
             \*  operator on OBSERVED stores, where the code can only fail - it divides by the total)
             \cup R(recvd /\ ReqsOf(c, b, call.s) # {} /\ c.batches[b].total = 0, "batch_total_is_zero")
      pay == SafePayout(c.batches[b].received, own, c.batches[b].total)
      c1 == [c EXCEPT !.reqs = c.reqs \ ReqsOf(c, b, call.s)]
  IN IF why # {} THEN Err(c, why)
     ELSE Ok(c1, <<Send(call.s, c.cfg.natDen, pay)>> \o OracleMsgs(c1))

\* execute.rs receive_rewards
ReceiveRewards(c, call) ==
  LET has == HasCoin(call.funds, c.cfg.natDen)
      a == IF has THEN FirstCoin(call.funds, c.cfg.natDen) ELSE 0
      fee == FeeOf(c.cfg.fee, a)
      why == R(c.stopped, "halted")
             \cup R(c.L = 0, "no_lst")
             \cup R(call.s # HookName(c.cfg.channel, c.cfg.collector), "unauthorized_hook")
             \cup R(~has, "no_funds")
             \cup R(has /\ fee > a, "fee_exceeds_reward")
      c1 == [c EXCEPT !.N = @ + (a - fee), !.rewards = @ + a,
                      !.fees = @ + (IF c.cfg.treasury = None THEN fee ELSE 0)]
      msgs == OracleMsgs(c1) \o <<Ibc(c.cfg.natDen, a - fee, c.cfg.staker)>>
              \o (IF c.cfg.treasury = None THEN << >> ELSE <<Send(c.cfg.treasury, c.cfg.natDen, fee)>>)
  IN IF why # {} THEN Err(c, why) ELSE Ok(c1, msgs)

\* execute.rs receive_unstaked_tokens
ReceiveUnstaked(c, call, now) ==
  LET b == call.b
      known == b \in BatchIds(c)
      has == HasCoin(call.funds, c.cfg.natDen)
      why == R(c.stopped, "halted")
             \cup R(call.s # HookName(c.cfg.channel, c.cfg.staker), "unauthorized_hook")
             \cup R(~has, "no_funds")
             \cup R(~known, "no_batch")
             \cup R(known /\ c.batches[b].status # "submitted", "not_submitted")
             \cup R(known /\ c.batches[b].status = "submitted"
                    /\ (c.batches[b].due = NoAmt \/ now < c.batches[b].due), "not_due")
      c1 == [c EXCEPT !.batches[b].received = FirstCoin(call.funds, c.cfg.natDen),
                      !.batches[b].status = "received", !.batches[b].due = NoAmt]
  IN IF why # {} THEN Err(c, why) ELSE Ok(c1, << >>)

\* execute.rs fee_withdraw (admin; not subject to the breaker)
FeeWithdraw(c, call) ==
  LET why == R(call.s # c.admin, "unauthorized")
             \cup R(c.fees < call.amt, "insufficient_fees")
             \cup R(c.cfg.treasury = None, "no_treasury")
  IN IF why # {} THEN Err(c, why)
     ELSE Ok([c EXCEPT !.fees = @ - call.amt], <<Send(c.cfg.treasury, c.cfg.natDen, call.amt)>>)

\* execute.rs circuit_breaker / resume_contract
CircuitBreaker(c, call) ==
  IF call.s # c.admin /\ call.s \notin c.cfg.monitors THEN Err(c, {"unauthorized"})
  ELSE Ok([c EXCEPT !.stopped = TRUE], << >>)

ResumeContract(c, call) ==
  IF call.s # c.admin THEN Err(c, {"unauthorized"})
  ELSE LET c1 == [c EXCEPT !.stopped = FALSE, !.N = call.n, !.L = call.l, !.rewards = call.r]
       IN Ok(c1, OracleMsgs(c1))

\* execute.rs recover. A selected sequence number counts once however often it is listed.
Refundable(p) == p.status \in {"ackfail", "timeout"}
RECURSIVE FirstK(_, _)
FirstK(S, k) == IF k = 0 \/ S = {} THEN {}
                ELSE LET p == CHOOSE x \in S : \A y \in S : x.seq <= y.seq IN {p} \cup FirstK(S \ {p}, k - 1)
Recover(c, call) ==
  LET rcv == IF call.receiver = None THEN c.cfg.staker ELSE call.receiver
      selSeqs == ToSet(call.sel)
      tracked == {p.seq : p \in c.pk}
      S == IF call.has_sel THEN {p \in c.pk : p.seq \in selSeqs}
           ELSE LET cand == {p \in c.pk : p.rcv = rcv /\ Refundable(p)}
                IN IF call.paginated = "true" THEN FirstK(cand, RecoverPageSize) ELSE cand
      why == R(call.has_sel /\ call.s # c.admin, "unauthorized")
             \cup R(~call.rvalid, "bad_receiver")
             \cup R(call.has_sel /\ ~(selSeqs \subseteq tracked), "unknown_packet")
             \cup R(call.has_sel /\ \E p \in S : p.rcv # rcv, "wrong_receiver")
             \cup R(S = {}, "nothing_to_recover")
             \cup R(\E p, q \in S : p.den # q.den, "mixed_denoms")
      den == (CHOOSE p \in S : TRUE).den
      tot == MapThenSumSet(LAMBDA p : p.amt, S)
  IN IF why # {} THEN Err(c, why)
     ELSE Ok([c EXCEPT !.pk = c.pk \ S], <<Ibc(den, tot, rcv)>>)

\* execute.rs execute_add_validator / execute_remove_validator
AddValidator(c, call) ==
  LET why == R(call.s # c.admin, "unauthorized") \cup R(~call.vvalid, "invalid_address")
             \cup R(call.v \in c.cfg.validators, "duplicate")
  IN IF why # {} THEN Err(c, why) ELSE Ok([c EXCEPT !.cfg.validators = @ \cup {call.v}], << >>)
RemoveValidator(c, call) ==
  LET why == R(call.s # c.admin, "unauthorized") \cup R(~call.vvalid, "invalid_address")
             \cup R(call.v \notin c.cfg.validators, "not_found")
  IN IF why # {} THEN Err(c, why) ELSE Ok([c EXCEPT !.cfg.validators = @ \ {call.v}], << >>)

\* ownership: execute.rs execute_transfer_ownership / revoke / accept - the machine of Ownership.tla
\* embedded into the staking state
OwnOf(c) == [admin |-> c.admin, pending |-> c.pending, minTime |-> c.minTime]
WithOwn(c, o) == [c EXCEPT !.admin = o.admin, !.pending = o.pending, !.minTime = o.minTime]
TransferOwnership(c, call, now) ==
  LET why == OwnTransferWhy(OwnOf(c), call.s, call.tvalid)
  IN IF why # {} THEN Err(c, why) ELSE Ok(WithOwn(c, OwnTransfer(OwnOf(c), call.to, now)), << >>)
RevokeOwnership(c, call) ==
  LET why == OwnRevokeWhy(OwnOf(c), call.s)
  IN IF why # {} THEN Err(c, why) ELSE Ok(WithOwn(c, OwnRevoke(OwnOf(c))), << >>)
AcceptOwnership(c, call, now) ==
  LET why == OwnAcceptWhy(OwnOf(c), call.s, now)
  IN IF why # {} THEN Err(c, why) ELSE Ok(WithOwn(c, OwnAccept(OwnOf(c), call.s)), << >>)

\* execute.rs update_config: only the supplied sections are replaced. `call.up` is a record whose
\* domain is the set of supplied sections; each carries the new abstract values and `valid`.
Has(up, f) == f \in DOMAIN up
UpdateConfig(c, call) ==
  LET up == call.up
      why == R(call.s # c.admin, "unauthorized")
             \cup R(\E f \in DOMAIN up : f \in {"native", "proto", "feecfg", "monitorsec"} /\ ~up[f].valid, "invalid_config")
      cfg1 == [c.cfg EXCEPT
                 !.staker    = IF Has(up, "native") THEN up.native.staker ELSE @,
                 !.collector = IF Has(up, "native") THEN up.native.collector ELSE @,
                 !.unbonding = IF Has(up, "native") THEN up.native.unbonding ELSE @,
                 !.channel   = IF Has(up, "proto") THEN up.proto.channel ELSE @,
                 !.minStake  = IF Has(up, "proto") THEN up.proto.minStake ELSE @,
                 !.oracle    = IF Has(up, "proto") THEN up.proto.oracle ELSE @,
                 !.fee       = IF Has(up, "feecfg") THEN up.feecfg.fee ELSE @,
                 !.treasury  = IF Has(up, "feecfg") THEN up.feecfg.treasury ELSE @,
                 !.monitors  = IF Has(up, "monitorsec") THEN ToSet(up.monitorsec.list) ELSE @,
                 !.batchPeriod = IF Has(up, "period") THEN up.period.secs ELSE @]
  IN IF why # {} THEN Err(c, why) ELSE Ok([c EXCEPT !.cfg = cfg1], << >>)

---------------------------------------------------------------------------
Apply(c, call, now) ==
  CASE call.m = "liquid_stake"              -> LiquidStake(c, call)
    [] call.m = "liquid_unstake"            -> LiquidUnstake(c, call)
    [] call.m = "submit_batch"              -> SubmitBatch(c, call, now)
    [] call.m = "withdraw"                  -> Withdraw(c, call)
    [] call.m = "receive_rewards"           -> ReceiveRewards(c, call)
    [] call.m = "receive_unstaked_tokens"   -> ReceiveUnstaked(c, call, now)
    [] call.m = "fee_withdraw"              -> FeeWithdraw(c, call)
    [] call.m = "circuit_breaker"           -> CircuitBreaker(c, call)
    [] call.m = "resume_contract"           -> ResumeContract(c, call)
    [] call.m = "recover"                   -> Recover(c, call)
    [] call.m = "add_validator"             -> AddValidator(c, call)
    [] call.m = "remove_validator"          -> RemoveValidator(c, call)
    [] call.m = "transfer_ownership"        -> TransferOwnership(c, call, now)
    [] call.m = "revoke_ownership_transfer" -> RevokeOwnership(c, call)
    [] call.m = "accept_ownership"          -> AcceptOwnership(c, call, now)
    [] call.m = "update_config"             -> UpdateConfig(c, call)

ContractMsgs == {"liquid_stake", "liquid_unstake", "submit_batch", "withdraw", "receive_rewards",
                 "receive_unstaked_tokens", "fee_withdraw", "circuit_breaker", "resume_contract",
                 "recover", "add_validator", "remove_validator", "transfer_ownership",
                 "revoke_ownership_transfer", "accept_ownership", "update_config"}

\* sudo entry point (ibc.rs receive_ack / receive_timeout): never fails
SudoAck(c, channel, seq, outcome) ==
  IF channel # c.cfg.channel \/ seq \notin {p.seq : p \in c.pk} THEN c
  ELSE LET p == CHOOSE q \in c.pk : q.seq = seq IN
       IF outcome = "ok" THEN [c EXCEPT !.pk = @ \ {p}]
       ELSE [c EXCEPT !.pk = (@ \ {p}) \cup {[p EXCEPT !.status = IF outcome = "timeout" THEN "timeout" ELSE "ackfail"]}]

\* contract.rs instantiate
InitContract(cfg, admin, now) ==
  [stopped |-> TRUE, admin |-> admin, pending |-> None, minTime |-> NoAmt,
   N |-> 0, L |-> 0, fees |-> 0, rewards |-> 0, pend |-> 1,
   batches |-> <<NewBatch(1, now + cfg.batchPeriod)>>, reqs |-> {}, pk |-> {}, waiting |-> 0, cfg |-> cfg]
=============================================================================
