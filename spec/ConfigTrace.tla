---------------------------- MODULE ConfigTrace ----------------------------
(***************************************************************************)
(* C14: recorded outcomes of the TLC-enumerated configuration messages     *)
(* (ConfigMC.tla) on the real contract, against ConfigRules.tla:           *)
(*   accepted  => everything stored is well-formed (independent classes),  *)
(*                supplied sections replaced by exactly what was sent,     *)
(*                other sections byte-identical, LST denom and halted flag *)
(*                untouched (instantiate: denom = factory/<contract>/<sub>,*)
(*                halted = TRUE);                                          *)
(*   refused   => nothing changes;                                         *)
(*   AddValidator / RemoveValidator: admin only, exactly the named         *)
(*   validator, duplicates / unknown / wrongly-prefixed refused.           *)
(***************************************************************************)
EXTENDS ConfigRules, SequencesExt, Json, IOUtils

Rec == ndJsonDeserialize(IOEnv.TRACE)
N == Len(Rec)
R(c, n) == IF c THEN {} ELSE {n}
Supplied(r) == ToSet(r.sections)

Problems(r) ==
  R(~r.panic, "panic") \cup
  (CASE r.kind = "instantiate" ->
          R(~r.ok \/ WellFormed(r.stored), "accepted configuration is not well-formed")
          \cup R(r.lst_ok, "LST denom is not factory/<contract>/<sub>")
          \cup R(r.halted, "new contract not halted")
     [] r.kind = "update" ->
          \* the sections ACCEPTED by this message must be well-formed against the prefixes now in effect; sections
          \* that were not supplied are not re-validated by a sectional update (changing only the protocol prefix
          \* necessarily leaves the monitors / treasury of earlier messages behind - not part of C14)
          R(~r.ok \/ \A sec \in Supplied(r) : \A f \in Fields[sec] : GoodClass(f, r.stored[f]),
            "an accepted section is not well-formed")
          \cup R(r.lst_ok, "UpdateConfig altered the LST denom")
          \cup R(r.halted, "UpdateConfig altered the halted flag")
          \cup R(\A s \in Sections : (s \notin Supplied(r) \/ ~r.ok) => r.unchanged[s], "a section that was not supplied (or a refused update) changed")
          \cup R(\A s \in Sections : (s \in Supplied(r) /\ r.ok) => r.replaced[s], "a supplied section was not replaced by what was sent")
     [] r.kind = "add_validator" ->
          R(r.ok => (r.admin /\ r.vclass = "new"), "AddValidator accepted a duplicate / malformed validator or a non-admin")
          \cup R(r.ok => r.added, "AddValidator did not add exactly the named validator")
          \cup R(r.ok \/ r.same, "refused AddValidator changed the list")
          \cup R(r.no_duplicates, "validator listed twice")
     [] r.kind = "remove_validator" ->
          R(r.ok => (r.admin /\ r.vclass = "present"), "RemoveValidator accepted an unknown / malformed validator or a non-admin")
          \cup R(r.ok => r.removed, "RemoveValidator did not remove exactly the named validator")
          \cup R(r.ok \/ r.same, "refused RemoveValidator changed the list"))

\* the property does not demand acceptance of good messages; counted, not judged
Divergent(r) == r.kind \in {"instantiate", "update"} /\ r.want /\ ~r.ok

VARIABLES l, nfind
TInit == l = 1 /\ nfind = 0
TNext == /\ l <= N
         /\ LET P == Problems(Rec[l]) IN
              /\ nfind' = nfind + Cardinality(P)
              /\ IF P = {} THEN (IF Divergent(Rec[l]) THEN PrintT("DIVERGENCE " \o ToString(l)) ELSE TRUE)
                 ELSE PrintT("FINDING " \o ToJson([i |-> l, fs |-> {[l |-> l, kind |-> "config", m |-> Rec[l].kind, atom |-> x, props |-> {"C14"},
                                                                     classes |-> Rec[l].classes] : x \in P}]))
         /\ l' = l + 1
TSpec == TInit /\ [][TNext]_<<l, nfind>>
Accepted == IF TLCGet("stats").diameter - 1 = N THEN PrintT("TRACE-CONSUMED " \o ToString(N))
            ELSE PrintT("TRACE-STUCK at line " \o ToString(TLCGet("stats").diameter)) /\ FALSE
=============================================================================
