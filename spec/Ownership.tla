----------------------------- MODULE Ownership -----------------------------
(***************************************************************************)
(* The two-step, time-locked admin handover used by BOTH contracts         *)
(* (staking/src/execute.rs and treasury/src/execute.rs carry the same      *)
(* three handlers): nominate (admin), revoke (admin), accept (nominee, no  *)
(* earlier than `OwnershipDelay` after the most recent nomination).        *)
(* Pure functions over an ownership record o = [admin, pending, minTime];  *)
(* Staking.tla and Treasury.tla embed them, OwnershipMC.tla model-checks   *)
(* the machine on its own.                                                 *)
(***************************************************************************)
EXTENDS Integers, Sequences, FiniteSets

OwnNone == ""          \* no nominee
OwnNoTime == -1        \* no time lock recorded
OwnershipDelay == 604800          \* 7 days in seconds

\* (type annotations are comments for TLC; Apalache uses them in proofs/OwnershipInd.tla)
\* @type: (Bool, Str) => Set(Str);
OwnR(cond, name) == IF cond THEN {name} ELSE {}

\* why-sets (empty = the call succeeds)
\* @type: ({ admin: Str, pending: Str, minTime: Int }, Str, Bool) => Set(Str);
OwnTransferWhy(o, s, tvalid) == OwnR(s # o.admin, "unauthorized") \cup OwnR(~tvalid, "invalid_address")
\* @type: ({ admin: Str, pending: Str, minTime: Int }, Str) => Set(Str);
OwnRevokeWhy(o, s) == OwnR(s # o.admin, "unauthorized")
\* @type: ({ admin: Str, pending: Str, minTime: Int }, Str, Int) => Set(Str);
OwnAcceptWhy(o, s, now) == OwnR(o.minTime # OwnNoTime /\ o.minTime > now, "too_early")
                           \cup OwnR(o.pending = OwnNone \/ o.pending # s, "not_nominee")

\* @type: ({ admin: Str, pending: Str, minTime: Int }, Str, Int) => { admin: Str, pending: Str, minTime: Int };
OwnTransfer(o, to, now) == [o EXCEPT !.pending = to, !.minTime = now + OwnershipDelay]
\* @type: ({ admin: Str, pending: Str, minTime: Int }) => { admin: Str, pending: Str, minTime: Int };
OwnRevoke(o) == [o EXCEPT !.pending = OwnNone, !.minTime = OwnNoTime]
\* acceptance consumes the nomination (the recorded time stays, as in the code; it is dead
\* data: no nominee is left who could use it)
\* @type: ({ admin: Str, pending: Str, minTime: Int }, Str) => { admin: Str, pending: Str, minTime: Int };
OwnAccept(o, s) == [o EXCEPT !.admin = s, !.pending = OwnNone]
=============================================================================
