----------------------------- MODULE Ownership -----------------------------
(***************************************************************************)
(* The two-step, time-locked admin handover used by BOTH contracts         *)
(* (staking/src/execute.rs and treasury/src/execute.rs carry the same      *)
(* three handlers): nominate (admin), revoke (admin), accept (nominee, no  *)
(* earlier than `OwnershipDelay` after the most recent nomination).        *)
(* Pure functions over an ownership record o = [admin, pending, minTime];  *)
(* Staking.tla and Treasury.tla embed them, OwnershipMC.tla model-checks   *)
(* the machine on its own.                                                 *)
(***************************************************************************)
EXTENDS Integers, Sequences, FiniteSets

OwnNone == ""          \* no nominee
OwnNoTime == -1        \* no time lock recorded
OwnershipDelay == 604800          \* 7 days in seconds

OwnR(cond, name) == IF cond THEN {name} ELSE {}

\* why-sets (empty = the call succeeds)
OwnTransferWhy(o, s, tvalid) == OwnR(s # o.admin, "unauthorized") \cup OwnR(~tvalid, "invalid_address")
OwnRevokeWhy(o, s) == OwnR(s # o.admin, "unauthorized")
OwnAcceptWhy(o, s, now) == OwnR(o.minTime # OwnNoTime /\ o.minTime > now, "too_early")
                           \cup OwnR(o.pending = OwnNone \/ o.pending # s, "not_nominee")

OwnTransfer(o, to, now) == [o EXCEPT !.pending = to, !.minTime = now + OwnershipDelay]
OwnRevoke(o) == [o EXCEPT !.pending = OwnNone, !.minTime = OwnNoTime]
\* acceptance consumes the nomination (the recorded time stays, as in the code; it is dead
\* data: no nominee is left who could use it)
OwnAccept(o, s) == [o EXCEPT !.admin = s, !.pending = OwnNone]
=============================================================================
