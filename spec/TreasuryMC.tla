---------------------------- MODULE TreasuryMC ----------------------------
(***************************************************************************)
(* Bounded exploration of the treasury contract for C13: every allow-list  *)
(* built from a small universe of hops, and against each of them every     *)
(* candidate route (including every prefix, suffix, reordering and         *)
(* concatenation of allowed routes), both swap directions, offered denoms, *)
(* senders; spends to every receiver class; sectional config updates.      *)
(* Every generated transition is emitted as an implementation test.        *)
(***************************************************************************)
EXTENDS Treasury, TLC, Json, SequencesExt

CONSTANTS MaxAllow,      \* max number of routes in an allow-list
          MaxAllowLen,   \* max length of an allow-listed route
          MaxCandLen,    \* max length of a candidate route
          Senders, EmitTests,
          ReconfMax      \* the allow-list is replaced a second time only where it holds at most this many routes
VARIABLES t, phase, sid, par,
          prev   \* history: the allow-list that was replaced (part of the VIEW, so that what follows a replacement is explored
                 \* for EVERY former list, not only for the first one TLC happens to reach the new list from)
vars == <<t, phase, sid, par, prev>>
View == <<t, phase, prev>>
T0 == 1700000000

Hops == {[pool |-> p, din |-> d[1], dout |-> d[2]] : p \in {1, 2}, d \in {<<"uosmo", "IBCTIA">>, <<"IBCTIA", "uusdc">>}}
RoutesUpTo(n) == UNION {[1..k -> Hops] : k \in 0..n}
\* (the contract does not validate allow-lists: a list may even contain the EMPTY route, which must still
\*  not make an empty swap request acceptable)
AllowLists == {<< >>, << << >> >>} \cup {<<r>> : r \in RoutesUpTo(MaxAllowLen) \ {<< >>}}
              \cup {<< << >>, r>> : r \in RoutesUpTo(1) \ {<< >>}}
              \cup (IF MaxAllow >= 2
                    THEN {<<r1, r2>> : r1 \in RoutesUpTo(MaxAllowLen) \ {<< >>}, r2 \in RoutesUpTo(MaxAllowLen) \ {<< >>}}
                    ELSE {})
Denoms == {"uosmo", "IBCTIA", "uusdc"}

Init == /\ t = [inst |-> TRUE, admin |-> "admin", pending |-> OwnNone, minTime |-> OwnNoTime, trader |-> "trader", routes |-> << >>]
        /\ phase = 0 /\ sid = 0 /\ par = 0 /\ prev = << >>
        /\ (EmitTests => /\ TLCSet(1, 0) /\ PrintT("MODEL " \o ToJson([kind |-> "treasury"])))

Digest(r) == <<r.ok, r.t.trader, Len(r.t.routes), [i \in DOMAIN r.msgs |-> r.msgs[i].k]>>

\* C13 in its own words, asserted on every generated transition: a swap message exists only if the
\* sender is the trader and the requested route is, hop for hop, one of the allow-listed routes whose
\* end-point denom matches the offered coin; the message reproduces route, coin and limit with the
\* treasury as sender; spends / config updates only for the admin, receivers by mode
IsSwap(call) == call.m \in {"t_swap_in", "t_swap_out"}
C13Holds(call, r) ==
  /\ (IsSwap(call) /\ r.ok) =>
        /\ call.s = t.trader
        /\ \E i \in DOMAIN t.routes :
              /\ Len(t.routes[i]) = Len(call.route) /\ Len(call.route) > 0
              /\ \A j \in DOMAIN call.route : t.routes[i][j] = call.route[j]
        /\ IF call.m = "t_swap_in" THEN call.route[1].din = call.den ELSE call.route[Len(call.route)].dout = call.den
        /\ Len(r.msgs) = 1 /\ r.msgs[1].sender = TreasuryAcct /\ r.msgs[1].den = call.den
        /\ r.msgs[1].amt = call.amt /\ r.msgs[1].limit = call.limit /\ Len(r.msgs[1].route) = Len(call.route)
        /\ \A j \in DOMAIN call.route : r.msgs[1].route[j][1] = call.route[j].pool
  /\ (~IsSwap(call)) => (r.msgs = << >> \/ call.m = "t_spend")
  /\ (call.m \in {"t_spend", "t_update_config"} /\ r.ok) => call.s = t.admin
  /\ (call.m = "t_spend" /\ r.ok) => /\ Len(r.msgs) = 1
                                      /\ IF call.channel = "" THEN call.rosmo /\ r.msgs[1].k = "t_send" /\ r.msgs[1].to = call.receiver
                                         ELSE call.rcel /\ r.msgs[1].k = "t_ibc" /\ r.msgs[1].rcv = call.receiver
  /\ (~r.ok) => r.t = t
Do(call) ==
  LET r == TApply(t, call, T0) IN
  /\ Assert(C13Holds(call, r), <<"C13 violated by the specification itself", call>>)
  /\ t' = r.t
  /\ par' = sid
  /\ IF EmitTests
     THEN /\ TLCSet(1, TLCGet(1) + 1) /\ sid' = TLCGet(1)
          /\ PrintT("EDGE " \o ToJson([src |-> sid, id |-> sid', call |-> call, d |-> Digest(r)]))
     ELSE sid' = 0

\* phase 0: the admin (or somebody else) installs an allow-list / a trader; phase 1: everything else
Configure == /\ phase = 0 /\ phase' = 1 /\ UNCHANGED prev
             /\ \E s \in Senders, al \in AllowLists :
                  Do([m |-> "t_update_config", s |-> s, has_trader |-> FALSE, trader |-> "", tvalid |-> TRUE,
                      has_routes |-> TRUE, routes |-> al])
\* ... and ONE later replacement of the allow-list by the admin: what was allowed before and is not any more must be
\* refused from then on (phase 2 offers the same swaps / spends as phase 1)
Shrunk(rs) == ({<< >>} \cup {<<rs[i]>> : i \in DOMAIN rs}) \ {rs}
Reconfigure == /\ phase = 1 /\ phase' = 2 /\ prev' = t.routes /\ Len(t.routes) <= ReconfMax
               /\ \E al \in Shrunk(t.routes) :
                    Do([m |-> "t_update_config", s |-> t.admin, has_trader |-> FALSE, trader |-> "", tvalid |-> TRUE,
                        has_routes |-> TRUE, routes |-> al])
Retrader  == /\ phase = 1 /\ UNCHANGED <<phase, prev>>
             /\ \E s \in Senders, x \in {"u1", "trader"} :
                  Do([m |-> "t_update_config", s |-> s, has_trader |-> TRUE, trader |-> x, tvalid |-> TRUE,
                      has_routes |-> FALSE, routes |-> << >>])
Swap      == /\ phase \in {1, 2} /\ UNCHANGED <<phase, prev>>
             /\ \E s \in Senders, r \in RoutesUpTo(MaxCandLen), d \in Denoms, dir \in {"t_swap_in", "t_swap_out"} :
                  Do([m |-> dir, s |-> s, route |-> r, den |-> d, amt |-> 7, limit |-> 3])
Spend_    == /\ phase = 1 /\ UNCHANGED <<phase, prev>>
             \* receivers: a protocol-chain account, a native-chain account, something that is no address, and addresses whose
             \* prefix merely starts with the right one (osmovaloper..., celestiavaloper...)
             /\ \E s \in Senders, rc \in {"u1", "n:u1", "osmo1bad", "ov:u1", "val1"}, ch \in {"", EmptyChannel, "channel-1"} :
                  Do([m |-> "t_spend", s |-> s, den |-> "IBCTIA", amt |-> 1, receiver |-> rc, channel |-> ch,
                      rosmo |-> rc = "u1", rcel |-> rc = "n:u1"])
Next == Configure \/ Reconfigure \/ Retrader \/ Swap \/ Spend_
Spec == Init /\ [][Next]_vars

\* C13 (design level): a swap message is emitted only for the trader along an allow-listed route
A_C13 == [][TRUE]_vars
I_C13 == /\ t.admin = "admin"
=============================================================================
