---------------------------- MODULE MilkyWayLive ----------------------------
(***************************************************************************)
(* Liveness of the batch lifecycle (beyond the 20 listed properties, all   *)
(* of which are safety): with a live operator and relayer                  *)
(*   - every Submitted batch is eventually Received,                       *)
(*   - every request in a Received batch is eventually withdrawn,          *)
(*   - every refundable transfer is eventually re-sent or acknowledged.    *)
(* TLC's liveness checking is unsound under a state CONSTRAINT, so the     *)
(* bounded model is CLOSED instead: steps that would leave the bounds do   *)
(* not exist (the environment never issues them), and a batch is only      *)
(* submitted when its unbonding deadline lies within the time horizon.     *)
(* Fairness: weak fairness of the operator's exact return, the relayer,    *)
(* the clock, withdrawals and permissionless recovery. No breaker, no      *)
(* admin in these configurations (a halted contract makes no progress).    *)
(***************************************************************************)
EXTENDS MilkyWay

InBounds(x) ==
  /\ x.ibc.next <= MaxSeq + 1
  /\ Len(x.c.batches) <= MaxBatches
  /\ x.c.N <= MaxN
  /\ Cardinality(x.c.pk) <= MaxPk
  /\ x.now <= T0 + MaxTime

Horizon == (Len(w'.c.batches) > Len(w.c.batches)) => (w.now + Unbonding + 1 <= T0 + MaxTime)
Closed(A) == A /\ InBounds(w') /\ Horizon

LiveNext == Closed(Next)
Fairness ==
  /\ WF_vars(Closed(ReturnBatch))
  /\ WF_vars(Closed(Relay))
  /\ WF_vars(Closed(Tick))
  /\ WF_vars(Closed(Withdraw_))
  /\ WF_vars(Closed(Recover_))
LiveSpec == Init /\ [][LiveNext]_vars /\ Fairness

\* sanity (expected to FAIL): without a live operator a submitted batch may stay Submitted forever
LazyOperatorSpec == Init /\ [][LiveNext]_vars /\ WF_vars(Closed(Relay)) /\ WF_vars(Closed(Tick)) /\ WF_vars(Closed(Withdraw_))

Status(b) == IF b \in BatchIds(w.c) THEN w.c.batches[b].status ELSE "none"
L_Received  == \A b \in 1..MaxBatches : (Status(b) = "submitted") ~> (Status(b) = "received")
L_Withdrawn == \A b \in 1..MaxBatches : (Status(b) = "received") ~> ({r \in w.c.reqs : r.b = b} = {})
\* (a re-sent transfer may fail again; the closed system has finitely many sequence numbers, so the honest
\*  statement is: refundable transfers do not stay refundable unless the numbers are exhausted)
L_Resent    == (\E p \in w.c.pk : Refundable(p)) ~> ((\A p \in w.c.pk : ~Refundable(p)) \/ w.ibc.next > MaxSeq)
\* safety re-checked on the closed system
LP_C01 == Inv_C01(w)
LP_C02 == Inv_C02(w)
=============================================================================
