----------------------------- MODULE ArithCore -----------------------------
(***************************************************************************)
(* The arithmetic kernel of the staking contract. Exactly one definition   *)
(* of every formula; every other module, the TLAPS proofs                  *)
(* (proofs/ArithProofs.tla) and the Apalache vector checks refer to these. *)
(*                                                                         *)
(*   helpers.rs  compute_mint_amount / compute_unbond_amount               *)
(*   execute.rs  receive_rewards (fee), execute_withdraw (payout)          *)
(***************************************************************************)
EXTENDS Integers

\* Uint128::multiply_ratio: floor(a * b / d), d # 0
MulDivFloor(a, b, d) == (a * b) \div d

\* LST minted for `a` staked tokens when the pool holds N staked tokens and L LST
MintAmount(N, L, a) == IF N = 0 THEN a ELSE MulDivFloor(L, a, N)

\* staked tokens set aside for a batch of b LST
UnbondAmount(N, L, b) == IF b = 0 THEN 0 ELSE MulDivFloor(N, b, L)

FeeDenominator == 100000
FeeOf(rate, a) == MulDivFloor(rate, a, FeeDenominator)

\* pro-rata payout of a received batch
Payout(recv, own, total) == MulDivFloor(recv, own, total)

\* Rational comparison by cross multiplication: n1/d1 <= n2/d2 (d1, d2 > 0)
RatLeq(n1, d1, n2, d2) == n1 * d2 <= n2 * d1

=============================================================================
