----------------------------- MODULE ArithTrace -----------------------------
(***************************************************************************)
(* Binds the proved definitions of ArithCore to the code: every record     *)
(* holds, for one (N, L), the results the REAL compute_mint_amount /       *)
(* compute_unbond_amount returned for every a (resp. every b <= L) of the  *)
(* small domain; TLC recomputes each with MintAmount / UnbondAmount and,   *)
(* on the same values, re-checks the proved inequalities (floor, no        *)
(* dilution, no round-trip profit) as a small-scope second opinion.        *)
(***************************************************************************)
EXTENDS Arith, Json, IOUtils, TLC, FiniteSets

Rec == ndJsonDeserialize(IOEnv.TRACE)
NLines == Len(Rec)

Bad(r) ==
  {[op |-> "mint", N |-> r.N, L |-> r.L, x |-> a, got |-> r.mint[a + 1], want |-> MintAmount(r.N, r.L, a)] :
      a \in {a \in 0..(Len(r.mint) - 1) : r.mint[a + 1] # MintAmount(r.N, r.L, a)}}
  \cup
  {[op |-> "unbond", N |-> r.N, L |-> r.L, x |-> b, got |-> r.unbond[b + 1], want |-> UnbondAmount(r.N, r.L, b)] :
      b \in {b \in 0..(Len(r.unbond) - 1) : r.unbond[b + 1] # UnbondAmount(r.N, r.L, b)}}

\* the proved facts, re-evaluated on the values the code returned
Lemmas(r) ==
  /\ \A a \in 0..(Len(r.mint) - 1) :
       LET m == r.mint[a + 1] IN
       (r.N > 0) =>
         /\ m * r.N <= a * r.L /\ a * r.L < (m + 1) * r.N                          \* floor
         /\ (r.N + a) * r.L >= r.N * (r.L + m)                                     \* no dilution on stake
         /\ (m > 0) => MulDivFloor(r.N + a, m, r.L + m) <= a                      \* no round-trip profit
  /\ \A b \in 0..(Len(r.unbond) - 1) :
       LET u == r.unbond[b + 1] IN
       (r.L > 0) => (u <= r.N /\ (r.N - u) * r.L >= r.N * (r.L - b))               \* no dilution on submit
  /\ (r.N = 0) => \A a \in 0..(Len(r.mint) - 1) : r.mint[a + 1] = a                \* 1:1 on an empty pool

VARIABLES l, nbad
TInit == l = 1 /\ nbad = 0
TNext == /\ l <= NLines
         /\ LET B == Bad(Rec[l])  ok == Lemmas(Rec[l]) IN
              /\ nbad' = nbad + Cardinality(B) + (IF ok THEN 0 ELSE 1)
              /\ IF B = {} /\ ok THEN TRUE
                 ELSE PrintT("FINDING " \o ToJson([i |-> l, bad |-> B, lemmas |-> ok]))
         /\ l' = l + 1
TSpec == TInit /\ [][TNext]_<<l, nbad>>
Accepted == IF TLCGet("stats").diameter - 1 = NLines THEN PrintT("TRACE-CONSUMED " \o ToString(NLines))
            ELSE PrintT("TRACE-STUCK at line " \o ToString(TLCGet("stats").diameter)) /\ FALSE
=============================================================================
