----------------------------- MODULE WideTrace -----------------------------
(***************************************************************************)
(* C16 at 128-bit scale. The wide-range driver uses amounts up to 10^27,   *)
(* exchange rates within [10^-3, 10^3] and every fee rate / period the     *)
(* validators accept; such values do not fit TLC's 32-bit integers, so the *)
(* recorded lines carry only the call kind and the outcome class. In the   *)
(* specification every entry point yields `ok` or a refusal - there is no  *)
(* third outcome (Staking!Apply, Chain!Exec are total functions into       *)
(* [ok: BOOLEAN, ...]); a recorded panic of an execute / instantiate /     *)
(* sudo / reply call, or of a query issued after it, can therefore never   *)
(* be matched and is a C16 finding.                                        *)
(***************************************************************************)
EXTENDS Integers, Sequences, FiniteSets, TLC, Json, IOUtils

Rec == ndJsonDeserialize(IOEnv.TRACE)
NLines == Len(Rec)
Outcomes == {"ok", "refused"}      \* the outcome classes of the specification
Class(e) == IF e.res.panic THEN "panic" ELSE IF e.res.ok THEN "ok" ELSE "refused"

\* a call that panics can never complete: besides C16 it contradicts the property that promises this call an outcome
\* (a requester can withdraw, a due batch can be submitted, a reward is booked, a stake mints, fees can be withdrawn)
Promised(m) == CASE m = "withdraw" -> {"C05", "C02"} [] m = "submit_batch" -> {"C06", "C04"} [] m = "receive_rewards" -> {"C11"}
                 [] m = "liquid_stake" -> {"C04", "C03"} [] m = "fee_withdraw" -> {"C11"} [] m = "recover" -> {"C07"}
                 [] m = "receive_unstaked_tokens" -> {"C06"} [] m = "liquid_unstake" -> {"C05"} [] OTHER -> {}
Findings(l) ==
  LET e == Rec[l] IN
  {[l |-> l, kind |-> "panic", m |-> e.call.m, atom |-> e.res.err, props |-> {"C16"} \cup Promised(e.call.m)] : x \in IF Class(e) \in Outcomes THEN {} ELSE {1}}
  \cup {[l |-> l, kind |-> "panic", m |-> "query", atom |-> e.qpanic, props |-> {"C16"}] : x \in IF e.qpanic = "" THEN {} ELSE {1}}

VARIABLES l, nfind
TInit == l = 1 /\ nfind = 0
TNext == /\ l <= NLines
         /\ LET F == Findings(l) IN
              /\ nfind' = nfind + Cardinality(F)
              /\ IF F = {} THEN TRUE ELSE PrintT("FINDING " \o ToJson([i |-> Rec[l].i, fs |-> F]))
         /\ l' = l + 1
TSpec == TInit /\ [][TNext]_<<l, nfind>>
Accepted == IF TLCGet("stats").diameter - 1 = NLines THEN PrintT("TRACE-CONSUMED " \o ToString(NLines))
            ELSE PrintT("TRACE-STUCK at line " \o ToString(TLCGet("stats").diameter)) /\ FALSE
=============================================================================
