----------------------------- MODULE DualTrace -----------------------------
(***************************************************************************)
(* C19, "all other observable behaviour of the two builds is identical":   *)
(* the same abstract calls (same seeds, same TLC-generated tests) were run *)
(* through the Osmosis build and the miniwasm build of the staking         *)
(* contract; the two recorded traces must agree line by line on outcome,   *)
(* emitted messages and complete post-state once the token-factory type    *)
(* URLs (the one permitted difference) and the build tag are erased.       *)
(* Each trace is separately validated by Trace.tla, whose wire atoms check *)
(* that the URLs belong to the build's token-factory module.               *)
(***************************************************************************)
EXTENDS Integers, Sequences, FiniteSets, TLC, Json, IOUtils

A == ndJsonDeserialize(IOEnv.TRACE_A)
B == ndJsonDeserialize(IOEnv.TRACE_B)
\* (once the builds disagree the two recordings part ways - different transitions get logged: the lines are compared as
\*  far as both exist and a difference in length is itself reported)
N == IF Len(A) <= Len(B) THEN Len(A) ELSE Len(B)

Drop(r, fields) == [f \in DOMAIN r \ fields |-> r[f]]
EraseMsg(m) == Drop(m, {"url"})
EraseCall(c) == IF "cfg" \in DOMAIN c THEN [c EXCEPT !.cfg = Drop(c.cfg, {"miniwasm"})] ELSE c
Erase(e) == [call |-> EraseCall(e.call), parent |-> e.parent,
             res |-> [ok |-> e.res.ok, panic |-> e.res.panic, err |-> e.res.err,
                      msgs |-> [i \in DOMAIN e.res.msgs |-> EraseMsg(e.res.msgs[i])]],
             post |-> e.post]
Differs(i) ==
  LET a == Erase(A[i])  b == Erase(B[i]) IN
  {f \in {"call", "parent", "res", "post"} : a[f] # b[f]}
UrlsOk(i) ==
  /\ A[i].build = "osmosis" /\ B[i].build = "miniwasm"
  /\ \A j \in DOMAIN A[i].res.msgs : "url" \in DOMAIN A[i].res.msgs[j] =>
        (j \in DOMAIN B[i].res.msgs /\ "url" \in DOMAIN B[i].res.msgs[j])

VARIABLES l, nfind
TInit == l = 1 /\ nfind = 0
TNext == /\ l <= N
         /\ LET D == Differs(l) \cup (IF UrlsOk(l) THEN {} ELSE {"urls"}) IN
              /\ nfind' = nfind + Cardinality(D)
              /\ IF D = {} THEN TRUE
                 ELSE PrintT("FINDING " \o ToJson([i |-> l, fs |-> {[l |-> l, kind |-> "dual", m |-> A[l].call.m, atom |-> d, props |-> {"C19"}] : d \in D}]))
         /\ l' = l + 1
TSpec == TInit /\ [][TNext]_<<l, nfind>>
Accepted == IF TLCGet("stats").diameter - 1 = N
            THEN /\ (Len(A) = Len(B) \/ PrintT("FINDING " \o ToJson([i |-> N, fs |-> {[l |-> N, kind |-> "dual", m |-> "length", atom |-> "the two builds' recordings have different lengths", props |-> {"C19"}]}])))
                 /\ PrintT("TRACE-CONSUMED " \o ToString(N))
            ELSE PrintT("TRACE-STUCK " \o ToString(Len(A)) \o " vs " \o ToString(Len(B))) /\ FALSE
=============================================================================
