----------------------------- MODULE Migration -----------------------------
(***************************************************************************)
(* contract.rs migrate + migrations/*.rs as functions on records.          *)
(* Gate: the stored cw2 name must be this contract's, the stored version   *)
(* must be EXACTLY the source version of the chosen path, and strictly     *)
(* older than the version being installed; a refused migration changes     *)
(* nothing. Effects: each path as a record-to-record map over the FLAT     *)
(* configuration (key = dotted JSON path, value = JSON text), and for      *)
(* 1.0.0 -> 1.1.0 the two IBC maps.                                        *)
(***************************************************************************)
EXTENDS Integers, Sequences, FiniteSets, TLC

StakingName == "staking"
StakingTarget == <<1, 1, 0, 1>>      \* 1.1.0 (release)
TreasuryName == "treasury"
TreasuryTarget == <<0, 4, 20, 1>>
Source(path) == CASE path = "v0_4_18_to_v0_4_20" -> "0.4.18"
                  [] path = "v0_4_20_to_v1_0_0" -> "0.4.20"
                  [] path = "v1_0_0_to_v1_1_0" -> "1.0.0"

\* semantic-version order on [major, minor, patch, isRelease]; << >> = unparseable
RECURSIVE LexLess(_, _, _)
LexLess(a, b, i) == IF i > Len(a) THEN FALSE
                    ELSE IF a[i] < b[i] THEN TRUE ELSE IF a[i] > b[i] THEN FALSE ELSE LexLess(a, b, i + 1)
Older(vp, target) == vp # << >> /\ LexLess(vp, target, 1)

StakingMigrateOk(name, version, vp, path) ==
  /\ name = StakingName
  /\ Older(vp, StakingTarget)
  /\ version = Source(path)
TreasuryMigrateOk(name, vp) == name = TreasuryName /\ Older(vp, TreasuryTarget)

\* ---- configuration translations (flat maps: dotted key -> JSON text)
Dropped_0_4_20 == {"operators", "oracle_contract_address", "oracle_contract_address_v2"}
Cfg_0_4_18_to_0_4_20(pre, sendFees) ==
  [k \in (DOMAIN pre \ Dropped_0_4_20) \cup {"send_fees_to_treasury"} |->
     IF k = "send_fees_to_treasury" THEN (IF sendFees THEN "true" ELSE "false") ELSE pre[k]]

Q(s) == "\"" \o s \o "\""
Cfg_0_4_20_to_1_0_0(pre, natPrefix, valPrefix, tokenDenom, protoPrefix) ==
  ( "native_chain_config.account_address_prefix" :> Q(natPrefix)
 @@ "native_chain_config.validator_address_prefix" :> Q(valPrefix)
 @@ "native_chain_config.token_denom" :> Q(tokenDenom)
 @@ "native_chain_config.validators" :> pre["validators"]
 @@ "native_chain_config.unbonding_period" :> pre["unbonding_period"]
 @@ "native_chain_config.staker_address" :> pre["multisig_address_config.staker_address"]
 @@ "native_chain_config.reward_collector_address" :> pre["multisig_address_config.reward_collector_address"]
 @@ "protocol_chain_config.account_address_prefix" :> Q(protoPrefix)
 @@ "protocol_chain_config.ibc_channel_id" :> pre["ibc_channel_id"]
 @@ "protocol_chain_config.ibc_token_denom" :> pre["native_token_denom"]
 @@ "protocol_chain_config.minimum_liquid_stake_amount" :> pre["minimum_liquid_stake_amount"]
 @@ "protocol_chain_config.oracle_address" :> pre["oracle_address"]
 @@ "protocol_fee_config.dao_treasury_fee" :> pre["protocol_fee_config.dao_treasury_fee"]
 @@ "protocol_fee_config.treasury_address" :> (IF pre["send_fees_to_treasury"] = "true" THEN pre["treasury_address"] ELSE "null")
 @@ "liquid_stake_token_denom" :> pre["liquid_stake_token_denom"]
 @@ "monitors" :> (IF pre["monitors"] = "null" THEN "[]" ELSE pre["monitors"])
 @@ "batch_period" :> pre["batch_period"]
 @@ "stopped" :> pre["stopped"] )

\* ---- 1.0.0 -> 1.1.0: every tracked / pending transfer keeps key, sequence, amount and status and gains
\*      the staked-asset denom and the staker as receiver
Pk_1_0_0_to_1_1_0(prepk, natden, staker) ==
  {<<p[1], p[2], natden, p[3], staker, p[4]>> : p \in prepk}       \* <<key, seq, denom, amount, receiver, status>>
Wait_1_0_0_to_1_1_0(prewait, natden, staker) ==
  {<<p[1], natden, p[2], staker>> : p \in prewait}                 \* <<key, denom, amount, receiver>>
=============================================================================
