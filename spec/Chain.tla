------------------------------- MODULE Chain -------------------------------
(***************************************************************************)
(* The environment of the staking contract: bank, token-factory supply,    *)
(* IBC transfer module with callbacks, ibc-hooks, the native chain and the *)
(* observation ledgers. `Exec(w, call)` is ONE transaction (or one         *)
(* environment event): it returns the successor world, whether the         *)
(* transaction committed, the messages that were executed and, if it was   *)
(* refused, why. A refused transaction leaves the world unchanged          *)
(* (atomicity of a Cosmos transaction, sub-messages and replies included). *)
(* The model's Next relation (MilkyWay.tla) and the trace validator        *)
(* (Trace.tla) are both built from this one operator.                      *)
(***************************************************************************)
EXTENDS Staking, Treasury, TLC

\* ------------------------------------------------------------------ ledgers as functions
Bal(bank, a, d) == IF <<a, d>> \in DOMAIN bank THEN bank[<<a, d>>] ELSE 0
Credit(bank, a, d, x) == [k \in DOMAIN bank \cup {<<a, d>>} |->
                            Bal(bank, k[1], k[2]) + (IF k = <<a, d>> THEN x ELSE 0)]
Debit(bank, a, d, x) == Credit(bank, a, d, 0 - x)
Get(f, k) == IF k \in DOMAIN f THEN f[k] ELSE 0
Add(f, k, x) == [j \in DOMAIN f \cup {k} |-> Get(f, j) + (IF j = k THEN x ELSE 0)]

Contract == "contract"

\* ------------------------------------------------------------------ executing emitted messages
\* state threaded through the fold: world, ok flag, index of the next IBC transfer, emitted list
IbcStep(acc, msg, ibcFail) ==
  LET w == acc.w
      refuse == acc.nibc \in ibcFail \/ msg.amt = 0 \/ Bal(w.bank, Contract, msg.den) < msg.amt
      seq == w.ibc.next
  IN IF refuse THEN [acc EXCEPT !.ok = FALSE, !.why = @ \cup {"ibc_submit_failed"}]
     ELSE [acc EXCEPT
             !.w = [w EXCEPT !.bank = Debit(w.bank, Contract, msg.den, msg.amt),
                             !.ibc = [next |-> seq + 1,
                                      fly |-> w.ibc.fly \cup {[seq |-> seq, den |-> msg.den, amt |-> msg.amt,
                                                               rcv |-> msg.rcv, ch |-> w.c.cfg.channel, snd |-> Contract]}],
                             \* the reply handler tracks the packet (execute.rs handle_ibc_reply): INFLIGHT_PACKETS is
                             \* keyed by the sequence number ALONE, so a record with the same number is overwritten
                             !.c.pk = {q \in @ : q.seq # seq} \cup {[seq |-> seq, den |-> msg.den, amt |-> msg.amt,
                                                                   rcv |-> msg.rcv, status |-> "sent"]}],
             !.nibc = @ + 1,
             !.out = Append(@, [msg EXCEPT !.k = "ibc"] @@ [seq |-> seq, cb |-> Contract, tmo |-> IbcTimeoutSecs])]

MsgStep(acc, msg, ibcFail) ==
  IF ~acc.ok THEN acc
  ELSE LET w == acc.w IN
    CASE msg.k = "tf_mint" ->
           [acc EXCEPT !.w = [w EXCEPT !.sup = @ + msg.amt, !.bank = Credit(w.bank, msg.to, msg.den, msg.amt)],
                       !.out = Append(@, msg)]
      [] msg.k = "tf_burn" ->
           IF Bal(w.bank, msg.from, msg.den) < msg.amt
           THEN [acc EXCEPT !.ok = FALSE, !.why = @ \cup {"burn_overdraft"}]
           ELSE [acc EXCEPT !.w = [w EXCEPT !.sup = @ - msg.amt, !.bank = Debit(w.bank, msg.from, msg.den, msg.amt)],
                            !.out = Append(@, msg)]
      [] msg.k = "send" ->
           IF Bal(w.bank, Contract, msg.den) < msg.amt
           THEN [acc EXCEPT !.ok = FALSE, !.why = @ \cup {"bank_overdraft"}]
           ELSE [acc EXCEPT !.w = [w EXCEPT !.bank = Credit(Debit(w.bank, Contract, msg.den, msg.amt), msg.to, msg.den, msg.amt)],
                            !.out = Append(@, msg)]
      [] msg.k = "oracle" -> [acc EXCEPT !.out = Append(@, msg)]
      [] msg.k = "ibc" -> IbcStep(acc, msg, ibcFail)

RunMsgs(w, msgs, ibcFail) ==
  FoldLeft(LAMBDA acc, msg : MsgStep(acc, msg, ibcFail),
           [w |-> w, ok |-> TRUE, nibc |-> 0, out |-> << >>, why |-> {}], msgs)

Refused(w, why) == [ok |-> FALSE, w |-> w, msgs |-> << >>, why |-> why]
Done(w, msgs)   == [ok |-> TRUE, w |-> w, msgs |-> msgs, why |-> {}]

\* ------------------------------------------------------------------ ledger observations
LedgerStep(w, w1, call) ==
  LET led == w1.led IN
  CASE call.m = "liquid_stake" ->
         [led EXCEPT !.swept = @ + (IF w.c.L = 0 /\ w.c.N # 0 THEN w.c.N ELSE 0)]
    [] call.m = "resume_contract" ->
         [led EXCEPT !.radjN = @ + (w1.c.N - w.c.N), !.radjL = @ + (w1.c.L - w.c.L),
                     !.honest = @ /\ w1.c.N = w.c.N /\ w1.c.L = w.c.L]
    [] call.m = "withdraw" ->
         [led EXCEPT !.paid = Add(@, call.b, SafePayout(w.c.batches[call.b].received, ReqAmt(w.c, call.b, call.s),
                                                         w.c.batches[call.b].total)),
                     !.wdl = Add(@, call.b, ReqAmt(w.c, call.b, call.s))]
    [] call.m = "recover" ->
         [led EXCEPT !.honest = @ /\ ~(call.has_sel /\ \E p \in w.c.pk : p.seq \in ToSet(call.sel) /\ p.status = "sent"),
                     !.forced = @ \/ (call.has_sel /\ \E p \in w.c.pk : p.seq \in ToSet(call.sel) /\ p.status = "sent")]
    [] call.m = "update_config" ->
         \* re-pointing the staker / channel / staked-asset denom splits the accounting of C01 between two
         \* native accounts; C01 is stated for one staker, so it is only asserted on histories without this
         [led EXCEPT !.repointed = @ \/ w1.c.cfg.staker # w.c.cfg.staker \/ w1.c.cfg.channel # w.c.cfg.channel
                                     \/ w1.c.cfg.natDen # w.c.cfg.natDen]
    [] OTHER -> led

\* ------------------------------------------------------------------ one contract transaction
ExecContract(w, call) ==
  LET s == call.s
      funds == IF "funds" \in DOMAIN call THEN call.funds ELSE << >>
      canPay == \A i \in DOMAIN funds : Bal(w.bank, s, funds[i][1]) >= funds[i][2]
      bank1 == FoldLeft(LAMBDA b, f : Credit(Debit(b, s, f[1], f[2]), Contract, f[1], f[2]), w.bank, funds)
      r == Apply(w.c, call, w.now)
      ibcFail == IF "ibc_fail" \in DOMAIN call THEN ToSet(call.ibc_fail) ELSE {}
      run == RunMsgs([w EXCEPT !.bank = bank1, !.c = r.c], r.msgs, ibcFail)
  IN IF ~canPay THEN Refused(w, {"sender_lacks_funds"})
     ELSE IF ~r.ok THEN Refused(w, r.why)
     ELSE IF ~run.ok THEN Refused(w, run.why)
     ELSE Done([run.w EXCEPT !.led = LedgerStep(w, run.w, call)], run.out)

\* ------------------------------------------------------------------ IBC outcomes (relayer)
Packet(w, seq) == CHOOSE p \in w.ibc.fly : p.seq = seq
IbcOutcome(w, call) ==
  IF call.seq \notin {p.seq : p \in w.ibc.fly} THEN Refused(w, {"no_such_packet"})
  ELSE LET p == Packet(w, call.seq)
           fly1 == w.ibc.fly \ {p}
           \* only the staking contract registers a callback the chain can deliver
           c1 == IF p.snd = Contract THEN SudoAck(w.c, p.ch, p.seq, call.outcome) ELSE w.c
       IN IF call.outcome = "ok"
          THEN Done([w EXCEPT !.ibc.fly = fly1, !.c = c1,
                              !.nat.bal = IF p.den = HookDenom THEN Add(@, p.rcv, p.amt) ELSE @,
                              !.nat.lst = IF p.den = HookDenom THEN @ ELSE Add(@, p.rcv, p.amt),
                              !.led.deliv = @ + (IF p.den = HookDenom /\ p.rcv = w.c.cfg.staker /\ p.snd = Contract THEN p.amt ELSE 0)],
                    << >>)
          ELSE Done([w EXCEPT !.ibc.fly = fly1, !.c = c1,
                              !.bank = Credit(@, p.snd, p.den, p.amt)], << >>)

\* an acknowledgement / timeout callback for something that is not in flight
Stray(w, call) ==
  Done([w EXCEPT !.c = SudoAck(w.c, call.channel, call.seq, call.kind)], << >>)

\* ------------------------------------------------------------------ ibc-hooks delivery (operator)
HookCall(w, call) ==
  LET h == HookName(call.channel, call.from)
      lim == "limited" \in DOMAIN call /\ call.limited
      \* the voucher the IBC module credits: the staked asset unless the operator sent something else
      den == IF "den" \in DOMAIN call THEN call.den ELSE HookDenom
      \* (the chain may refuse the transfers the handler submits: `ibc_fail` travels with the delivery)
      inner == [m |-> call.inner, s |-> h, funds |-> <<<<den, call.amt>>>>, b |-> call.b,
                ibc_fail |-> IF "ibc_fail" \in DOMAIN call THEN call.ibc_fail ELSE << >>]
      w0 == [w EXCEPT !.bank = Credit(@, h, den, call.amt)]
      r == ExecContract(w0, inner)
      exact == call.inner # "receive_unstaked_tokens" \/ call.amt = w.c.batches[call.b].expected
  IN IF lim /\ Get(w.nat.bal, call.from) < call.amt THEN Refused(w, {"native_sender_lacks_funds"})
     ELSE IF ~r.ok THEN Refused(w, r.why)
     ELSE Done([r.w EXCEPT !.nat.bal = IF lim /\ den = HookDenom THEN Add(@, call.from, 0 - call.amt) ELSE @,
                           !.led.honest = @ /\ exact], r.msgs)

\* ------------------------------------------------------------------ the treasury contract
\* its messages: bank send and IBC transfer out of its own balance; swaps are handed to the pool
\* manager, which is not modelled (the message itself is what C13 constrains)
TMsgStep(acc, msg) ==
  IF ~acc.ok THEN acc
  ELSE LET w == acc.w IN
    CASE msg.k = "t_send" ->
           IF Bal(w.bank, TreasuryAcct, msg.den) < msg.amt THEN [acc EXCEPT !.ok = FALSE, !.why = @ \cup {"bank_overdraft"}]
           ELSE [acc EXCEPT !.w.bank = Credit(Debit(w.bank, TreasuryAcct, msg.den, msg.amt), msg.to, msg.den, msg.amt),
                            !.out = Append(@, msg)]
      [] msg.k = "t_ibc" ->
           IF msg.amt = 0 \/ Bal(w.bank, TreasuryAcct, msg.den) < msg.amt THEN [acc EXCEPT !.ok = FALSE, !.why = @ \cup {"ibc_submit_failed"}]
           ELSE [acc EXCEPT !.w.bank = Debit(w.bank, TreasuryAcct, msg.den, msg.amt),
                            !.w.ibc = [next |-> w.ibc.next + 1,
                                       fly |-> w.ibc.fly \cup {[seq |-> w.ibc.next, den |-> msg.den, amt |-> msg.amt,
                                                                rcv |-> msg.rcv, ch |-> msg.channel, snd |-> TreasuryAcct]}],
                            !.out = Append(@, msg @@ [seq |-> w.ibc.next, cb |-> TreasuryAcct, tmo |-> IbcTimeoutSecs])]
      [] OTHER -> [acc EXCEPT !.out = Append(@, msg)]
ExecTreasury(w, call) ==
  LET r == TApply(w.t, call, w.now)
      run == FoldLeft(TMsgStep, [w |-> [w EXCEPT !.t = r.t], ok |-> TRUE, out |-> << >>, why |-> {}], r.msgs)
  IN IF ~r.ok THEN Refused(w, r.why)
     ELSE IF ~run.ok THEN Refused(w, run.why)
     ELSE Done(run.w, run.out)

\* ------------------------------------------------------------------ everything
Exec(w, call) ==
  CASE call.m = "faucet"   -> Done([w EXCEPT !.bank = Credit(@, call.a, call.d, call.x)], << >>)
    [] call.m = "nat_fund" -> Done([w EXCEPT !.nat.bal = Add(@, call.a, call.x), !.led.honest = FALSE], << >>)
    [] call.m = "time"     -> Done([w EXCEPT !.now = IF call.t >= @ THEN call.t ELSE @], << >>)
    \* IBC sequence numbers are per channel: after the configured channel changed, the transfers on the new
    \* channel are numbered by that channel's own counter
    [] call.m = "ibc_set_next" -> Done([w EXCEPT !.ibc.next = call.n], << >>)
    [] call.m = "ibc_ack"  -> IbcOutcome(w, call)
    [] call.m = "stray"    -> Stray(w, call)
    [] call.m = "hook"     -> HookCall(w, call)
    [] call.m \in ContractMsgs -> ExecContract(w, call)
    [] call.m \in TreasuryMsgs -> ExecTreasury(w, call)
    \* the store is rewritten into the 1.0.0 layout and migrated to 1.1.0 again (Migration.tla): on the
    \* abstract state this is the identity, so that the history simply continues across the upgrade
    [] call.m = "migrate_roundtrip" -> IF call.eligible THEN Done(w, << >>) ELSE Refused(w, {"not_expressible_in_legacy_layout"})
    \* the configuration is rewritten into the 0.4.20 layout (stored version 0.4.20) and migrated by the 0.4.20 -> 1.0.0 path:
    \* the identity on the abstract state as well - everything the contract does afterwards (the denom it mints and burns,
    \* where fees go, who may deliver) must be what it was
    [] call.m = "migrate_from_0_4_20" -> Done(w, << >>)

---------------------------------------------------------------------------
\* The world right after instantiate (contract.rs instantiate + token-factory create-denom)
EmptyLedgers == [swept |-> 0, radjN |-> 0, radjL |-> 0, paid |-> << >>, wdl |-> << >>, deliv |-> 0,
                 honest |-> TRUE, forced |-> FALSE, repointed |-> FALSE]
InitWorld(cfg, admin, now, bank) ==
  [c |-> InitContract(cfg, admin, now), bank |-> bank, sup |-> 0,
   ibc |-> [next |-> 1, fly |-> {}], nat |-> [bal |-> << >>, lst |-> << >>],
   led |-> EmptyLedgers, now |-> now, t |-> TUninit]

---------------------------------------------------------------------------
\* ------------------------------------------------------------------ the properties as state predicates
PkSum(w, den, rcvs, sts) ==
  MapThenSumSet(LAMBDA p : p.amt, {p \in w.c.pk : p.den = den /\ p.rcv \in rcvs /\ p.status \in sts})
PkSumAny(w, den, sts) ==
  MapThenSumSet(LAMBDA p : p.amt, {p \in w.c.pk : p.den = den /\ p.status \in sts})
SubmittedEver(w) == {b \in BatchIds(w.c) : w.c.batches[b].status # "pending"}
Outstanding(w)   == {b \in BatchIds(w.c) : w.c.batches[b].status = "submitted"}
ReceivedB(w)     == {b \in BatchIds(w.c) : w.c.batches[b].status = "received"}
NatDen(w) == w.c.cfg.natDen
LstDen(w) == w.c.cfg.lst
AllSts == {"sent", "ackfail", "timeout"}
RefSts == {"ackfail", "timeout"}

\* C01: accounting total = forwarded to the staker - set aside for submitted batches - swept
Inv_C01(w) ==
  (~w.led.forced /\ ~w.led.repointed) =>
    w.c.N + MapThenSumSet(LAMBDA b : w.c.batches[b].expected, SubmittedEver(w)) + w.led.swept - w.led.radjN
      = w.led.deliv + PkSum(w, NatDen(w), {w.c.cfg.staker}, AllSts)
\* ... hence, with an honest operator, the staker holds enough for every outstanding batch
Inv_C01b(w) ==
  (w.led.honest /\ ~w.led.forced /\ ~w.led.repointed) =>
    Get(w.nat.bal, w.c.cfg.staker) + PkSum(w, NatDen(w), {w.c.cfg.staker}, AllSts)
      = w.c.N + MapThenSumSet(LAMBDA b : w.c.batches[b].expected, Outstanding(w)) + w.led.swept

\* ... and "in flight" means in flight: a transfer the contract records as Sent is one the chain has not resolved yet
\* (its acknowledgement or timeout, once delivered, moves the record on). Not claimed after a re-pointing of the channel
\* (known finding KF2) or a forced recovery of a packet in flight.
Inv_C01c(w) ==
  (~w.led.forced /\ ~w.led.repointed) =>
    \A p \in w.c.pk : p.status = "sent" => \E f \in w.ibc.fly : f.seq = p.seq

\* C02: the contract's staked-asset balance = received-not-withdrawn + retained fees + refunds
Inv_C02(w) ==
  ~w.led.forced =>
    Bal(w.bank, Contract, NatDen(w))
      = MapThenSumSet(LAMBDA b : w.c.batches[b].received - Get(w.led.paid, b), ReceivedB(w))
        + w.c.fees - w.led.swept + PkSumAny(w, NatDen(w), RefSts)

\* C03: LST supply = reported total; the contract holds pending batch + refunded LST transfers;
\*      every LST is in exactly one place
LstHeld(w) == MapThenSumSet(LAMBDA k : w.bank[k], {k \in DOMAIN w.bank : k[2] = LstDen(w)})
LstFlying(w) == MapThenSumSet(LAMBDA p : p.amt, {p \in w.ibc.fly : p.den = LstDen(w)})
LstRemote(w) == MapThenSumSet(LAMBDA a : w.nat.lst[a], DOMAIN w.nat.lst)
Inv_C03(w) ==
  ~w.led.forced =>
    /\ w.sup = w.c.L - w.led.radjL
    /\ Bal(w.bank, Contract, LstDen(w)) = w.c.batches[w.c.pend].total + PkSumAny(w, LstDen(w), RefSts)
    /\ w.sup = LstHeld(w) + LstFlying(w) + LstRemote(w)

\* C05: batch total = open requests + withdrawn; payouts never exceed the receipt
Inv_C05(w) ==
  /\ \A b \in BatchIds(w.c) :
        w.c.batches[b].total = MapThenSumSet(LAMBDA r : r.amt, {r \in w.c.reqs : r.b = b}) + Get(w.led.wdl, b)
  /\ \A b \in ReceivedB(w) : Get(w.led.paid, b) <= w.c.batches[b].received
  /\ \A r1, r2 \in w.c.reqs : (r1.b = r2.b /\ r1.u = r2.u) => r1 = r2
  /\ \A r \in w.c.reqs : r.b \in BatchIds(w.c) /\ r.amt > 0

\* C06: exactly one pending batch, the last one; ids are 1..n
Inv_C06(w) ==
  /\ w.c.pend = Len(w.c.batches)
  /\ \A b \in BatchIds(w.c) :
        /\ w.c.batches[b].id = b
        /\ (w.c.batches[b].status = "pending") <=> (b = w.c.pend)
        /\ w.c.batches[b].status \in {"pending", "submitted", "received"}
        /\ (w.c.batches[b].status = "pending") => (w.c.batches[b].expected = NoAmt /\ w.c.batches[b].due # NoAmt)
        /\ (w.c.batches[b].status = "submitted") => (w.c.batches[b].expected # NoAmt /\ w.c.batches[b].due # NoAmt)
        /\ (w.c.batches[b].status = "received") => (w.c.batches[b].received # NoAmt)
StatusRank(s) == CASE s = "pending" -> 0 [] s = "submitted" -> 1 [] s = "received" -> 2
Act_C06(w, w1) ==
  /\ Len(w1.c.batches) >= Len(w.c.batches)
  /\ \A b \in BatchIds(w.c) :
        /\ StatusRank(w1.c.batches[b].status) >= StatusRank(w.c.batches[b].status)
        /\ StatusRank(w1.c.batches[b].status) <= StatusRank(w.c.batches[b].status) + 1
        /\ (w.c.batches[b].expected # NoAmt) => (w1.c.batches[b].expected = w.c.batches[b].expected)

\* C07: a packet is tracked as Sent exactly while it is in flight; refundable ones are kept;
\*      nothing is left waiting for a reply between transactions
Inv_C07(w) ==
  /\ w.c.waiting = 0
  /\ ~w.led.forced =>
       /\ \A p \in w.c.pk : (p.status = "sent") <=> (p.seq \in {q.seq : q \in {x \in w.ibc.fly : x.snd = Contract}})
       /\ \A q \in w.ibc.fly : (q.snd = Contract /\ q.ch = w.c.cfg.channel) =>
             \E p \in w.c.pk : p.seq = q.seq /\ p.den = q.den /\ p.amt = q.amt /\ p.rcv = q.rcv
  /\ \A p, q \in w.c.pk : p.seq = q.seq => p = q

\* C04 along histories: neither stake nor submit lowers the redemption rate N/L of the holders
Act_C04(w, w1, call) ==
  (call.m \in {"liquid_stake", "submit_batch"} /\ w.c.L > 0 /\ w1.c.L > 0
     /\ ~(w.c.L = 0 /\ w.c.N # 0))
    => RatLeq(w.c.N, w.c.L, w1.c.N, w1.c.L)

\* the same, stated on the state change alone (stake: L grows; submit: a batch is appended)
Act_C04s(w, w1) ==
  ((w1.c.L > w.c.L \/ Len(w1.c.batches) > Len(w.c.batches)) /\ w.c.L > 0 /\ w1.c.L > 0)
    => RatLeq(w.c.N, w.c.L, w1.c.N, w1.c.L)

\* C11 in its own words, on one accepted reward of amount a (the rewards counter grows by a): what is restaked, what is
\* paid to the treasury in the same transaction and what accrues add up to a; with a treasury nothing accrues, without
\* one nothing is paid; and a reward is never accepted while no LST exists. `msgs` are the messages of the transaction.
Act_C11(w, w1, msgs) ==
  LET a == w1.c.rewards - w.c.rewards
      paid == LET S == {i \in DOMAIN msgs : msgs[i].k = "send" /\ msgs[i].den = w.c.cfg.natDen /\ msgs[i].to = w.c.cfg.treasury}
              IN MapThenSumSet(LAMBDA i : msgs[i].amt, S)
  IN a > 0 =>
       /\ w.c.L > 0
       /\ (w1.c.N - w.c.N) + (w1.c.fees - w.c.fees) + paid = a
       /\ (w.c.cfg.treasury # "" => w1.c.fees = w.c.fees)
       /\ (w.c.cfg.treasury = "" => paid = 0)
       \* "restaked": what was added to the staked total really left for the staker in this transaction
       /\ (w1.c.N > w.c.N => \E i \in DOMAIN msgs : msgs[i].k = "ibc" /\ msgs[i].den = w.c.cfg.natDen
                                                   /\ msgs[i].rcv = w.c.cfg.staker /\ msgs[i].amt = w1.c.N - w.c.N)

\* C11: fee bookkeeping is never negative
Inv_C11(w) == w.c.fees >= 0 /\ w.c.rewards >= 0

\* C16 support: the facts the code's unwraps rely on
Inv_C16(w) ==
  /\ w.c.pend \in BatchIds(w.c)
  /\ \A b \in ReceivedB(w) : w.c.batches[b].received # NoAmt /\ (w.c.batches[b].total > 0 \/ {r \in w.c.reqs : r.b = b} = {})

NonNeg(w) ==
  /\ \A k \in DOMAIN w.bank : w.bank[k] >= 0
  /\ \A a \in DOMAIN w.nat.bal : w.nat.bal[a] >= 0
  /\ w.c.N >= 0 /\ w.c.L >= 0 /\ w.sup >= 0
=============================================================================
