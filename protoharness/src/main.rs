//! protoharness <vectors.ndjson> <observations.ndjson>
//!
//! Input lines (written by tools/c20check.py from TLC-generated vectors):
//!   {"t":"msg","fq":"cosmos.bank.v1beta1.MsgSend","vec":[{"id":"f1.abc","b":"0a03616263"}, ..]}
//!   {"t":"url","rust":"initia_proto::cosmos::bank::v1beta1::MsgSend","sample":"0a0161"}
//! Output: the same lines with what the real code did.
//!   msg: per vector  ok / c (re-encoding of the decoded value, hex) / rt (decode(c) == value and encodes to c again)
//!        and, when an osmosis-std type of the same protobuf name exists, the same through that type (rok / rc / rrt)
//!   url: TYPE_URL of the registered type, Any round trips, foreign / mangled URLs that from_any accepted
//! `src/registry.rs` is generated from the current source tree; it only lists types, all logic is here.
use initia_proto::traits::{MessageExt, TypeUrl};
use initia_proto::Any;
use prost::Message;
use serde_json::{json, Value};
use std::io::{BufRead, BufWriter, Write};

mod registry;

pub struct Obs {
    ok: bool,
    c: Vec<u8>,
    rt: bool,
    err: String,
}

pub type DecFn = fn(&[u8]) -> Obs;
pub type UrlFn = fn(&[u8], usize, &[&str]) -> Value;

/// decode with the real generated code, re-encode, and check encode-then-decode on the decoded value
pub fn run<M: Message + Default + PartialEq>(b: &[u8]) -> Obs {
    match M::decode(b) {
        Err(e) => Obs { ok: false, c: vec![], rt: true, err: e.to_string() },
        Ok(m) => {
            let c = m.encode_to_vec();
            let rt = match M::decode(&c[..]) {
                Ok(m2) => m2 == m && m2.encode_to_vec() == c && m.encoded_len() == c.len(),
                Err(_) => false,
            };
            Obs { ok: true, c, rt, err: String::new() }
        }
    }
}

fn any_round_trip<M: Message + Default + PartialEq + TypeUrl>(m: &M) -> (bool, String) {
    match m.to_any() {
        Err(_) => (false, String::new()),
        Ok(any) => {
            let back = M::from_any(&any);
            let same = matches!(&back, Ok(x) if x == m);
            let bytes_ok = m.to_bytes().map(|b| b == any.value && b == m.encode_to_vec()).unwrap_or(false);
            (same && bytes_ok, any.type_url)
        }
    }
}

/// everything about one registered type URL
pub fn url_probe<M: Message + Default + PartialEq + TypeUrl>(sample: &[u8], me: usize, all: &[&str]) -> Value {
    let url = M::TYPE_URL;
    let d = M::default();
    let (rt_default, any_url) = any_round_trip(&d);
    let (nondefault, rt_value, value_bytes) = match M::decode(sample) {
        Ok(v) => (v != d, any_round_trip(&v).0, v.encode_to_vec()),
        Err(_) => (false, false, vec![]),
    };
    // a foreign / mangled URL must be refused whatever the payload: the non-default value AND the empty payload
    // (the encoding of every default message), so that a shortcut taken before the URL comparison is seen
    let accepts = |u: &str| {
        M::from_any(&Any { type_url: u.to_string(), value: value_bytes.clone() }).is_ok()
            || M::from_any(&Any { type_url: u.to_string(), value: vec![] }).is_ok()
    };
    let foreign: Vec<&str> = all.iter().enumerate().filter(|(j, u)| *j != me && accepts(u)).map(|(_, u)| *u).collect();
    let mangled_all: Vec<String> = vec![
        url.trim_start_matches('/').to_string(),
        format!("{}x", url),
        String::new(),
        format!("/{}", url),
        url.to_uppercase(),
        format!("type.googleapis.com{}", url),
        url[..url.len().saturating_sub(1)].to_string(),
    ];
    let mangled: Vec<&String> = mangled_all.iter().filter(|u| u.as_str() != url && accepts(u)).collect();
    let own = accepts(url);
    json!({"url": url, "any_url": any_url, "rt_default": rt_default, "nondefault": nondefault, "rt_value": rt_value,
           "own_accepted": own, "foreign_tried": all.len() - 1, "foreign_accepted": foreign,
           "mangled_tried": mangled_all.len(), "mangled_accepted": mangled})
}

fn unhex(s: &str) -> Vec<u8> {
    (0..s.len() / 2).map(|i| u8::from_str_radix(&s[2 * i..2 * i + 2], 16).expect("hex")).collect()
}
fn hex(b: &[u8]) -> String {
    b.iter().map(|x| format!("{:02x}", x)).collect()
}

fn main() {
    let a: Vec<String> = std::env::args().collect();
    if a.len() == 2 && a[1] == "list" {
        for (fq, _, r) in registry::MSGS {
            println!("{} {}", fq, r.is_some());
        }
        return;
    }
    if a.len() != 3 {
        eprintln!("usage: protoharness <vectors.ndjson> <observations.ndjson> | protoharness list");
        std::process::exit(2);
    }
    let msgs: std::collections::HashMap<&str, (DecFn, Option<DecFn>)> =
        registry::MSGS.iter().map(|(fq, f, r)| (*fq, (*f, *r))).collect();
    let urls: std::collections::HashMap<&str, (usize, UrlFn)> =
        registry::URLS.iter().enumerate().map(|(i, (rust, f))| (*rust, (i, *f))).collect();
    let inp = std::io::BufReader::new(std::fs::File::open(&a[1]).expect("open vectors"));
    let mut out = BufWriter::new(std::fs::File::create(&a[2]).expect("create observations"));
    for line in inp.lines() {
        let line = line.expect("read");
        if line.trim().is_empty() {
            continue;
        }
        let mut v: Value = serde_json::from_str(&line).expect("json");
        match v["t"].as_str() {
            Some("msg") => {
                let fq = v["fq"].as_str().expect("fq").to_string();
                let (f, r) = match msgs.get(fq.as_str()) {
                    Some(x) => *x,
                    None => {
                        v["missing"] = json!(true);
                        writeln!(out, "{}", v).unwrap();
                        continue;
                    }
                };
                let mut obs = vec![];
                for x in v["vec"].as_array().expect("vec") {
                    let b = unhex(x["b"].as_str().expect("b"));
                    let o = f(&b);
                    let mut j = json!({"id": x["id"], "ok": o.ok, "c": hex(&o.c), "rt": o.rt, "err": o.err});
                    if let Some(rf) = r {
                        let ro = rf(&b);
                        j["rok"] = json!(ro.ok);
                        j["rc"] = json!(hex(&ro.c));
                        j["rrt"] = json!(ro.rt);
                    }
                    obs.push(j);
                }
                writeln!(out, "{}", json!({"t": "msg", "fq": fq, "hasref": r.is_some(), "obs": obs})).unwrap();
            }
            Some("url") => {
                let rust = v["rust"].as_str().expect("rust").to_string();
                match urls.get(rust.as_str()) {
                    Some((i, f)) => {
                        let mut o = f(&unhex(v["sample"].as_str().unwrap_or("")), *i, registry::ALL_URLS);
                        o["t"] = json!("url");
                        o["rust"] = json!(rust);
                        o["registered"] = json!(registry::ALL_URLS.len());
                        writeln!(out, "{}", o).unwrap();
                    }
                    None => writeln!(out, "{}", json!({"t": "url", "rust": rust, "missing": true})).unwrap(),
                }
            }
            _ => panic!("unknown line type"),
        }
    }
    out.flush().unwrap();
}
