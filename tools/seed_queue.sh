#!/bin/sh
# seed_queue.sh <instance> <id:prop> ...   - evaluates the given seeded changes one after the other in scratch instance <instance>
inst="$1"; shift
for m in "$@"; do
  SEED_INSTANCE="$inst" python3 /verif/tools/seed_eval.py /tmp/seed/done/${m%%:*} ${m##*:}
done
