#!/usr/bin/env python3
"""Scenario-first drivers (DESIGN Appendix H): fixed call sequences that exercise every clause of a property at
least once, written as abstract calls and executed against the real contract by `mwh exec`. The generated files
scenarios/<prop>.ndjson are committed; re-run this script after editing."""
import json, os
ROOT = os.path.dirname(os.path.dirname(os.path.abspath(__file__)))
OUT = os.path.join(ROOT, "scenarios")
IB, LST = "IBCTIA", "LST"
CH = "channel-1"


def inst(run, **kw):
    cfg = dict(samePrefix=False, treasury="", oracle="oracle", fee=10000, minStake=1, batchPeriod=100, unbonding=1000,
               monitors=["mon1", "mon2"], sub="stTIA")
    cfg.update(kw)
    return {"m": "instantiate", "s": "admin", "run": run, "cfg": cfg}


def resume(n=0, l=0, r=0, s="admin"): return {"m": "resume_contract", "s": s, "n": n, "l": l, "r": r}
def faucet(a, x, d=IB): return {"m": "faucet", "a": a, "d": d, "x": x}
def stake(s, a, mint_to="", to_native="none", expected=-1, fail=()): return {"m": "liquid_stake", "s": s, "funds": [[IB, a]], "mint_to": mint_to, "to_native": to_native, "expected": expected, "ibc_fail": list(fail)}
def unstake(s, a): return {"m": "liquid_unstake", "s": s, "funds": [[LST, a]]}
def dt(n): return {"m": "time", "dt": n}
def submit(s="u2"): return {"m": "submit_batch", "s": s}
def ack(seq, outcome="ok"): return {"m": "ibc_ack", "seq": seq, "outcome": outcome}
def rewards(amt, frm="collector", ch=CH): return {"m": "hook", "inner": "receive_rewards", "channel": ch, "from": frm, "amt": amt, "b": 0}
def unstaked(b, amt, frm="staker", ch=CH, limited=True): return {"m": "hook", "inner": "receive_unstaked_tokens", "channel": ch, "from": frm, "amt": amt, "b": b, "limited": limited}
def withdraw(s, b): return {"m": "withdraw", "s": s, "b": b}
def recover(s="u2", receiver="", paginated="none", sel=None, fail=()): return {"m": "recover", "s": s, "paginated": paginated, "has_sel": sel is not None, "sel": sel or [], "receiver": receiver, "ibc_fail": list(fail)}
def feew(amt, s="admin"): return {"m": "fee_withdraw", "s": s, "amt": amt}
def breaker(s="admin"): return {"m": "circuit_breaker", "s": s}
def natfund(a, x): return {"m": "nat_fund", "a": a, "x": x}
def upd(s="admin", **up): return {"m": "update_config", "s": s, "up": up}


def start(run, users=("u1", "u2", "u3"), funds=1000, **kw):
    return [inst(run, **kw), resume()] + [faucet(u, funds) for u in users]


def c09():
    S = []
    for run, same in ((1, False), (2, True)):
        S += start(run, samePrefix=same)
        S += [stake("u1", 100), ack(1),
              rewards(50), ack(2),                                  # collector hook accepted
              rewards(50, frm="staker"),                            # staker's hook is not the collector's
              rewards(50, ch="channel-2"), rewards(50, ch="channel-10"), rewards(50, ch="channel-11"),   # neighbouring channels
              rewards(50, frm="n:u1"), rewards(50, frm="collector2"),
              unstake("u1", 40), dt(100), submit(), dt(1000),
              unstaked(1, 30, frm="collector", limited=False),      # collector's hook is not the staker's
              unstaked(1, 30, ch="channel-2", limited=False), unstaked(1, 30, frm="staker2", limited=False),
              unstaked(1, 30, frm="n:u2", limited=False),
              {"m": "receive_unstaked_tokens", "s": "u1", "b": 1, "funds": [[IB, 30]]},   # a direct call by a user
              {"m": "receive_rewards", "s": "u1", "funds": [[IB, 30]]},
              ]
        # rotate staker and collector
        S += [upd(native={"staker": "staker2", "collector": "collector2", "unbonding": 1000, "valid": True}),
              rewards(20), rewards(20, frm="collector2"), ack(3),
              unstaked(1, 30, frm="staker", limited=False),          # the OLD staker is no longer accepted
              unstaked(1, 30, frm="staker2", limited=False),
              withdraw("u1", 1)]
        # rotate the channel
        S += [upd(proto={"channel": "channel-2", "minStake": 1, "oracle": "oracle", "valid": True}),
              rewards(20, frm="collector2"), rewards(20, frm="collector2", ch="channel-2"),
              rewards(20, frm="collector", ch="channel-2"), rewards(20, frm="collector2", ch="channel-22")]
    return S


def c18():
    """upgrade in the middle of histories: refundable value recoverable before the upgrade is recoverable after"""
    S = []
    mig = {"m": "migrate_roundtrip"}
    for run, tre in ((1, False), (2, True)):
        S += start(run, treasury="treasury" if tre else "")
        S += [mig,                                                     # empty maps
              stake("u1", 100), mig,                                   # one packet in flight
              stake("u2", 60), stake("u1", 30), ack(1, "err"), ack(2, "timeout"), mig,   # ackfail + timeout + sent
              recover("u3"), mig,                                      # recovered after the upgrade, re-sent packet tracked
              ack(3), ack(4, "err"), rewards(40), mig, recover("u1"), ack(5), ack(6), ack(7) if not tre else ack(7),
              unstake("u1", 50), dt(100), submit(), mig, dt(1000), unstaked(1, 50, limited=False), withdraw("u1", 1), mig,
              stake("u2", 10, mint_to="n:u2"), mig]                    # an LST packet to a user: not expressible, refused by the harness
    return S


def c19():
    """both builds must behave identically for every sub-denom the validators accept, whatever the chain's
    token-factory module then says (it refuses sub-denoms longer than 44 characters)"""
    S = []
    subs = ["stTIA", "abcd", "a" * 43, "b" * 44, "c" * 45, "d" * 54]
    for run, sub in enumerate(subs, start=1):
        S += [inst(run, sub=sub), resume(), faucet("u1", 500), stake("u1", 100), ack(1), rewards(30), stake("u1", 50, mint_to="n:u1"),
              unstake("u1", 60), dt(100), submit(), unstake("u1", 40), dt(100), submit()]
    return S


def c19b():
    """a history that contains the upgrade from 0.4.20: the denom minted and burned afterwards is the one created at instantiation"""
    S = []
    for run, tre in ((1, False), (2, True)):
        S += start(run, treasury="treasury" if tre else "")
        S += [stake("u1", 100), ack(1), {"m": "migrate_from_0_4_20"}, stake("u1", 50), ack(2), rewards(30), unstake("u1", 60), dt(100), submit(),
              {"m": "migrate_from_0_4_20"}, stake("u2", 20, mint_to="n:u2")]
    return S


def mig():
    """the upgrade from 0.4.20 in the middle of a history must change nothing the other properties depend on: the roles of
    the two native accounts (C08, C09), the halted flag (C10), the fee destination (C11), the oracle (C15), the denoms"""
    S = []
    M = {"m": "migrate_from_0_4_20"}
    for run, tre in ((1, False), (2, True)):
        S += start(run, treasury="treasury" if tre else "")
        S += [stake("u1", 100), ack(1), M,
              rewards(40), ack(2), rewards(40, frm="staker"),              # collector's hook accepted, staker's refused - as before
              unstake("u1", 50), dt(100), submit(), dt(1000),
              unstaked(1, 50, frm="collector", limited=False), unstaked(1, 50), withdraw("u1", 1),
              breaker(), M,                                                # upgraded while halted: still halted
              stake("u2", 10), rewards(10), unstake("u1", 5), breaker("mon1"),
              resume(n=126, l=50, r=40), stake("u2", 10), ack(3), feew(1), M, feew(1), rewards(20), ack(4),
              # ... and the 1.0.0 -> 1.1.0 step with a failed, a timed-out and an in-flight transfer on the books:
              # what was refundable before the upgrade is recovered after it, what was in flight still resolves
              stake("u1", 30), stake("u2", 20), stake("u3", 10), ack(5, "err"), ack(6, "timeout"), {"m": "migrate_roundtrip"},
              recover("u3"), ack(7), ack(8)]
    return S


def rec12():
    """more refunded transfers than one page of the recovery: everything that is summed into the re-send is also
    removed from the records (non-paginated: all twelve at once; paginated: ten, then two), nothing is sent twice"""
    S = []
    for run, pag in ((1, "none"), (2, "true"), (3, "false")):
        S += start(run)
        S += [stake("u1", 10 + k) for k in range(12)]
        S += [ack(k + 1, "timeout" if k % 2 else "err") for k in range(12)]
        S += [recover("u3", paginated=pag), recover("u3", paginated=pag), recover("u2", paginated=pag),
              ack(13), ack(14, "err"), recover("u1"), ack(15)]
    return S


def crowd():
    """one batch with more requesters than any scan bound: the burn of the batch submission is the batch total (C19), the
    payouts are exact shares (C05), the per-user index holds one request each (C17)"""
    users = [f"v{k}" for k in range(1, 36)]
    S = start(1, users=tuple(users), funds=100)
    S += [stake(u, 20) for u in users]
    S += [ack(k + 1) for k in range(len(users))]
    S += [unstake(u, 5 + (k % 3)) for k, u in enumerate(users)]
    S += [dt(100), submit(), dt(1000), unstaked(1, sum(5 + (k % 3) for k in range(len(users))) - 3, limited=False)]
    S += [withdraw(u, 1) for u in users[:6]] + [withdraw(users[0], 1)]
    return S


def tinst():
    """the treasury is deployed by somebody who is NOT its designated admin (the usual deployer / admin split): the admin
    role belongs to the account named in the message, not to the sender"""
    S = start(1)
    TI = lambda s, admin: {"m": "t_instantiate", "s": s, "admin": admin, "trader": "trader", "routes": []}
    sp = lambda s: {"m": "t_spend", "s": s, "den": IB, "amt": 1, "receiver": "u1", "channel": ""}
    uc = lambda s: {"m": "t_update_config", "s": s, "has_trader": True, "trader": "u2", "has_routes": False, "routes": []}
    S += [TI("u3", "admin"), faucet("treasury", 50), sp("u3"), uc("u3"), sp("admin"), uc("admin"), sp("u2")]
    return S


def kf2():
    """KNOWN FINDING KF2 (exhibited by TLC on spec/mc/KF_rechannel.cfg): UpdateConfig changes the IBC channel while
    transfers sent on the previous channel are unresolved. receive_ack / receive_timeout compare the callback's
    channel with the CURRENT configuration, so the outcome of those transfers is ignored: a failed transfer stays
    recorded as Sent although its refund sits in the contract (only an admin-forced recovery can re-send it), and
    because INFLIGHT_PACKETS is keyed by the sequence number alone, a transfer on the new channel whose number
    coincides overwrites the old record."""
    S = start(1)
    S += [stake("u1", 100), stake("u2", 60),
          upd(proto={"channel": "channel-2", "minStake": 1, "oracle": "oracle", "valid": True}),
          ack(1, "err"),                 # ignored: still recorded as Sent, 100 refunded to the contract
          ack(2, "timeout"),
          recover("u3"),                 # nothing refundable according to the contract
          {"m": "ibc_set_next", "n": 1},  # the new channel numbers its packets from 1
          stake("u3", 30),               # sequence 1 again: the record of the failed 100 is overwritten
          ack(1, "ok")]
    return S


SCEN = {"C09": c09, "C18": c18, "C19": c19, "C19b": c19b, "MIG": mig, "REC12": rec12, "CROWD": crowd, "TINST": tinst, "KF2": kf2}

if __name__ == "__main__":
    os.makedirs(OUT, exist_ok=True)
    for name, f in SCEN.items():
        with open(os.path.join(OUT, name + ".ndjson"), "w") as out:
            for c in f():
                out.write(json.dumps({"call": c}) + "\n")
        print(name, "written")
