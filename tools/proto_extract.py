#!/usr/bin/env python3
"""Line-oriented extractor of protobuf descriptors from prost-generated Rust sources (property C20).

    python3 tools/proto_extract.py current  [--repo /repo] [--out FILE]   descriptor table of the working tree
    python3 tools/proto_extract.py baseline [--repo /repo]                -> spec/proto/baseline.json (committed oracle)
    python3 tools/proto_extract.py reference                              -> spec/proto/reference.json (osmosis-std)
    python3 tools/proto_extract.py compare  [--repo /repo]                 python-side summary of both comparisons

What is read
  * <repo>/packages/initia-proto/src/lib.rs         the `pub mod .. { include!("proto/<pkg>.rs") }` tree
  * <repo>/packages/initia-proto/src/proto/<pkg>.rs the generated code; protobuf package = file name minus ".rs"
  * <repo>/packages/initia-proto/src/**/*.rs        every `impl TypeUrl for <path> { const TYPE_URL .. = ".." }`
  * the tendermint-proto sources pinned by <repo>/Cargo.lock (messages nested in the bindings but defined elsewhere)
  * osmosis-std-0.25.0/src/types/** in the cargo registry (independent reference; FQ names from #[proto_message])

Fully-qualified name of a message = package + "." + path of enclosing messages (a nested message lives in the
`pub mod snake_case(Parent)` block next to its parent). Generated files that lib.rs never includes and the
tonic client/server modules (cfg(feature = "grpc")) are not part of the API used by the contracts and are skipped.

Descriptor of a message: list of ENTRIES sorted by their smallest tag (the order prost-derive encodes in)
  plain field  {"name","tag","kind","card","ty","kk","packed"}
       kind   bool int32 int64 uint32 uint64 sint32 sint64 fixed32 fixed64 sfixed32 sfixed64 float double
              enum string bytes message
       card   single | optional | repeated | map        (map: kind/ty describe the value, kk the key kind)
       ty     FQ name of the message / enumeration type ("" otherwise)
       packed repeated numeric scalars only: false iff packed = "false"
  oneof        {"name","oneof":true,"tags":[..],"variants":[plain field with card "oneof", ..]}
"""
import glob, json, os, re, sys

ROOT = os.path.dirname(os.path.dirname(os.path.abspath(__file__)))
SPEC_DIR = os.path.join(ROOT, "spec", "proto")
REGISTRY_GLOB = os.path.expanduser("~/.cargo/registry/src/*/")

NUMERIC = {"bool", "int32", "int64", "uint32", "uint64", "sint32", "sint64", "fixed32", "fixed64",
           "sfixed32", "sfixed64", "float", "double", "enum"}
KINDS = NUMERIC | {"string", "bytes", "message"}

# well-known types the generated code borrows from other crates (wire definition of google/protobuf/*.proto)
WELL_KNOWN = {
    "google.protobuf.Any": [("type_url", 1, "string"), ("value", 2, "bytes")],
    "google.protobuf.Timestamp": [("seconds", 1, "int64"), ("nanos", 2, "int32")],
    "google.protobuf.Duration": [("seconds", 1, "int64"), ("nanos", 2, "int32")],
}
WELL_KNOWN_RUST = {
    "prost_types::Any": "google.protobuf.Any", "prost_types::Timestamp": "google.protobuf.Timestamp",
    "prost_types::Duration": "google.protobuf.Duration",
    "tendermint_proto::google::protobuf::Timestamp": "google.protobuf.Timestamp",
    "tendermint_proto::google::protobuf::Duration": "google.protobuf.Duration",
    "osmosis_std::shim::Any": "google.protobuf.Any", "osmosis_std::shim::Timestamp": "google.protobuf.Timestamp",
    "osmosis_std::shim::Duration": "google.protobuf.Duration",
}


EXTERN_CRATES = {"tendermint_proto", "prost_types", "prost"}


class ExtractError(Exception):
    pass


def split_top(s):
    """split on commas outside double quotes"""
    out, cur, q = [], "", False
    for ch in s:
        if ch == '"':
            q = not q
        if ch == "," and not q:
            out.append(cur.strip())
            cur = ""
        else:
            cur += ch
    if cur.strip():
        out.append(cur.strip())
    return out


def parse_prost_attr(body, where):
    """body = text between `#[prost(` and `)]` -> dict"""
    d = {"card": "single", "packed": True}
    for it in split_top(body):
        m = re.match(r'^(\w+)\s*=\s*"(.*)"$', it)
        key, val = (m.group(1), m.group(2)) if m else (it, None)
        if key == "tag":
            d["tag"] = int(val)
        elif key == "tags":
            d["tags"] = [int(x) for x in val.split(",")]
        elif key == "oneof":
            d["oneof"] = val
        elif key == "enumeration":
            d["kind"], d["typath"] = "enum", val
        elif key == "bytes":
            d["kind"] = "bytes"
        elif key in ("map", "btree_map", "hash_map"):
            k, v = [x.strip() for x in val.split(",", 1)]
            d["card"], d["kk"] = "map", k
            m2 = re.match(r"^enumeration\((.*)\)$", v)
            if m2:
                d["kind"], d["typath"] = "enum", m2.group(1)
            else:
                d["kind"] = v
        elif key in ("optional", "repeated"):
            d["card"] = key
        elif key == "required":
            d["card"] = "required"
        elif key == "default":
            pass                    # proto2 default of an Option-typed field: not visible on the wire
        elif key == "packed":
            d["packed"] = (val != "false")
        elif key == "boxed":
            pass
        elif key in KINDS and val is None:
            d["kind"] = key
        else:
            raise ExtractError(f"{where}: unknown prost attribute item {it!r}")
    return d


def inner_type(ty):
    """innermost user type path of a field type (strips Option / Vec / Box / HashMap<K, V> wrappers)"""
    ty = ty.strip().rstrip(",").strip()
    while True:
        m = re.match(r"^(?:::)?(?:[\w]+::)*(Option|Vec|Box|HashMap|BTreeMap)\s*<(.*)>$", ty, re.S)
        if not m:
            return ty
        inner = m.group(2).strip().rstrip(",").strip()
        if m.group(1) in ("HashMap", "BTreeMap"):
            depth = 0
            for i, ch in enumerate(inner):
                depth += ch == "<"
                depth -= ch == ">"
                if ch == "," and depth == 0:
                    inner = inner[i + 1:].strip().rstrip(",").strip()
                    break
        ty = inner


def resolve(cur_mod, path, crate):
    """Rust path as written in module `cur_mod` (list, crate name first) -> absolute '::'-joined path"""
    path = path.replace("r#", "").strip()
    if path.startswith("::"):
        return path[2:]
    parts = path.split("::")
    if parts[0] == "crate":
        return "::".join([crate] + parts[1:])
    if parts[0] in EXTERN_CRATES:
        return "::".join(parts)
    base = list(cur_mod)
    while parts and parts[0] in ("super", "self"):
        if parts[0] == "super":
            if len(base) <= 1:
                raise ExtractError(f"path {path} escapes the crate from {cur_mod}")
            base.pop()
        parts.pop(0)
    return "::".join(base + parts)


def read_decl(lines, i):
    """the declaration following an attribute: skips further (possibly multi-line) attributes and comments, joins
    lines up to the closing comma"""
    decl, n = "", len(lines)
    while i < n:
        t = lines[i].strip()
        i += 1
        if not decl and (not t or t.startswith("//")):
            continue
        if not decl and t.startswith("#["):
            while t.count("[") > t.count("]") and i < n:
                t += " " + lines[i].strip()
                i += 1
            continue
        decl += " " + t
        if t.endswith(",") and decl.count("<") == decl.count(">") and decl.count("(") == decl.count(")"):
            break
    return decl, i


def parse_generated(text, mod_path, fname, crate):
    """One generated file -> (structs, enums, oneofs); every item carries its absolute Rust module path.
    structs: {"name","mod":[..],"line","url", "raw":[(attr dict, field name, type text)]}"""
    structs, enums, oneofs = [], [], []
    lines = text.split("\n")
    stack = []          # (mod name, depth at which it was opened)
    depth = 0
    pend = {"kind": None, "url": None, "grpc": False}
    i, n = 0, len(lines)

    def reset():
        pend.update(kind=None, url=None, grpc=False)

    def cur_mod():
        return list(mod_path) + [m for m, _ in stack]

    while i < n:
        raw = lines[i]
        s = raw.strip()
        i += 1
        if not s or s.startswith("//"):
            continue
        if s.startswith("#[") or s.startswith("#!["):
            full = s
            while full.count("[") > full.count("]") and i < n:     # multi-line attribute
                full += " " + lines[i].strip()
                i += 1
            if "::prost::Message" in full and full.startswith("#[derive"):
                pend["kind"] = "message"
            elif "::prost::Enumeration" in full and full.startswith("#[derive"):
                pend["kind"] = "enum"
            elif "::prost::Oneof" in full and full.startswith("#[derive"):
                pend["kind"] = "oneof"
            m = re.match(r'#\[proto_message\(type_url\s*=\s*"([^"]*)"\)\]', full)
            if m:
                pend["url"] = m.group(1)
            if re.match(r'#\[cfg\(feature\s*=\s*"grpc', full):
                pend["grpc"] = True
            continue
        m = re.match(r"^pub mod (\w+|r#\w+)\s*\{$", s)
        if m:
            if pend["grpc"]:                       # tonic client / server module: skip the whole block
                d = 1
                while d > 0 and i < n:
                    t = lines[i].strip()
                    i += 1
                    if t.startswith("//"):
                        continue
                    d += t.count("{") - t.count("}")
                reset()
                continue
            stack.append((m.group(1).replace("r#", ""), depth))
            depth += 1
            reset()
            continue
        m = re.match(r"^pub struct (\w+)\s*\{(\})?$", s)
        if m and pend["kind"] == "message":
            st = {"name": m.group(1), "mod": cur_mod(), "line": i, "url": pend["url"], "file": fname, "raw": []}
            reset()
            if not m.group(2):
                while i < n:
                    t = lines[i].strip()
                    i += 1
                    if t == "}":
                        break
                    if not t.startswith("#[prost("):
                        continue
                    start = i
                    attr = t
                    while not attr.endswith(")]") and i < n:
                        attr += " " + lines[i].strip()
                        i += 1
                    body = attr[len("#[prost("):-2]
                    # field declaration: skip other attributes / comments, join lines up to the closing comma
                    decl, i = read_decl(lines, i)
                    md = re.match(r"^\s*pub\s+(r#)?(\w+)\s*:\s*(.*)$", decl, re.S)
                    if not md:
                        raise ExtractError(f"{fname}:{start}: cannot parse field declaration {decl!r}")
                    st["raw"].append((parse_prost_attr(body, f"{fname}:{start}"), md.group(2), md.group(3)))
            structs.append(st)
            continue
        m = re.match(r"^pub enum (\w+)\s*\{$", s)
        if m and pend["kind"] in ("enum", "oneof"):
            kind = pend["kind"]
            it = {"name": m.group(1), "mod": cur_mod(), "line": i, "file": fname, "raw": []}
            reset()
            while i < n:
                t = lines[i].strip()
                i += 1
                if t == "}":
                    break
                if kind == "enum":
                    mv = re.match(r"^(\w+)\s*=\s*(-?\d+),$", t)
                    if mv:
                        it["raw"].append((mv.group(1), int(mv.group(2))))
                elif t.startswith("#[prost("):
                    start = i
                    attr = t
                    while not attr.endswith(")]") and i < n:
                        attr += " " + lines[i].strip()
                        i += 1
                    decl, i = read_decl(lines, i)
                    mv = re.match(r"^\s*(\w+)\s*\((.*)\)\s*,$", decl, re.S)
                    if not mv:
                        raise ExtractError(f"{fname}:{start}: cannot parse oneof variant {decl!r}")
                    it["raw"].append((parse_prost_attr(attr[len("#[prost("):-2], f"{fname}:{start}"), mv.group(1), mv.group(2)))
            (enums if kind == "enum" else oneofs).append(it)
            continue
        # anything else (impl blocks, functions ...): only keep the brace depth right
        reset()
        opened = s.count("{") - s.count("}")
        if opened < 0:
            for _ in range(-opened):
                depth -= 1
                if stack and stack[-1][1] == depth:
                    stack.pop()
        elif opened > 0:
            # skip the block wholesale (impl / fn bodies), it contains no items we care about
            d = opened
            while d > 0 and i < n:
                t = lines[i].strip()
                i += 1
                if t.startswith("//"):
                    continue
                d += t.count("{") - t.count("}")
    if stack:
        raise ExtractError(f"{fname}: unbalanced module braces ({stack})")
    return structs, enums, oneofs


def snake_matches(mod_name, struct_name):
    return mod_name.replace("_", "").lower() == struct_name.lower()


class Crate:
    """all generated files of one crate, with name resolution"""

    def __init__(self, crate):
        self.crate = crate
        self.structs, self.enums, self.oneofs = [], [], []
        self.pkg_of_mod = {}      # '::'-joined module path of an include point -> protobuf package
        self.case_diffs = 0
        self.url_unusable = 0

    def add_file(self, path, mod_path, package):
        fname = os.path.basename(path)
        st, en, on = parse_generated(open(path, encoding="utf-8").read(), mod_path, fname, self.crate)
        self.pkg_of_mod["::".join(mod_path)] = (package, len(mod_path))
        for x in st + en + on:
            x["package"], x["base"] = package, len(mod_path)
        self.structs += st
        self.enums += en
        self.oneofs += on

    def finish(self, use_url, extra=None):
        """assign FQ names, resolve type paths -> (messages, enums)"""
        by_scope = {}
        for st in self.structs:
            by_scope.setdefault("::".join(st["mod"]), []).append(st["name"])

        def fq_by_rule(x):
            names = []
            for k in range(x["base"], len(x["mod"])):
                scope = "::".join(x["mod"][:k])
                cands = [s for s in by_scope.get(scope, []) if snake_matches(x["mod"][k], s)]
                if len(cands) != 1:
                    raise ExtractError(f"{x['file']}:{x['line']}: cannot find the parent message of module "
                                       f"{'::'.join(x['mod'][:k + 1])} ({cands})")
                names.append(cands[0])
            return ".".join([x["package"]] + names + [x["name"]])

        rule_checked = 0
        rust2fq, messages, enums = dict(WELL_KNOWN_RUST), {}, {}
        rust2fq.update(extra or {})
        for st in self.structs:
            fq = fq_by_rule(st)
            if use_url and st["url"]:
                # prost normalises message names to UpperCamelCase (QueryAccountAddressByIDRequest -> ..ByIdRequest),
                # so the rule reproduces the protobuf name up to letter case; the attribute keeps the original
                if st["url"].endswith("."):
                    # osmosis-std quirk: one nested message (StakeAuthorization.Validators, renamed `Validators_` to
                    # avoid a clash with the oneof enum) carries a truncated type_url; fall back to the rule
                    fq = fq.rstrip("_")
                    st["url"] = "/" + fq
                    self.url_unusable += 1
                if st["url"].lower() != "/" + fq.lower():
                    raise ExtractError(f"{st['file']}:{st['line']}: naming rule gives {fq}, attribute says {st['url']}")
                rule_checked += 1
                self.case_diffs += st["url"] != "/" + fq
                fq = st["url"][1:]
            st["fq"] = fq
            rust2fq["::".join(st["mod"] + [st["name"]])] = fq
        for en in self.enums:
            en["fq"] = fq_by_rule(en)
            rust2fq["::".join(en["mod"] + [en["name"]])] = en["fq"]
            enums[en["fq"]] = {"rust": "::".join(en["mod"] + [en["name"]]), "file": en["file"], "line": en["line"],
                               "values": [[nm, num] for nm, num in en["raw"]]}
        oneof_by_rust = {"::".join(o["mod"] + [o["name"]]): o for o in self.oneofs}
        unresolved = []

        def tyname(cur, path, where):
            ab = resolve(cur, path, self.crate)
            ab = ALIASES.get(self.crate, lambda p: p)(ab)
            if ab in rust2fq:
                return rust2fq[ab]
            unresolved.append((where, ab))
            return "?" + ab

        def plain(attr, name, tytext, cur, where, card=None):
            f = {"name": name, "tag": attr["tag"], "kind": attr["kind"], "card": card or attr["card"], "ty": "",
                 "kk": attr.get("kk", ""), "packed": True}
            if f["kind"] == "message":
                f["ty"] = tyname(cur, inner_type(tytext), where)
            elif f["kind"] == "enum":
                f["ty"] = tyname(cur, attr["typath"], where)
            if f["card"] == "repeated" and f["kind"] in NUMERIC:
                f["packed"] = attr["packed"]
            return f

        for st in self.structs:
            entries = []
            for attr, name, tytext in st["raw"]:
                where = f"{st['file']}:{st['line']} {st['name']}.{name}"
                if "oneof" in attr:
                    ab = resolve(st["mod"], attr["oneof"], self.crate)
                    o = oneof_by_rust.get(ab)
                    if o is None:
                        raise ExtractError(f"{where}: oneof enum {ab} not found")
                    vs = [plain(a, vn, vt, o["mod"], where + "." + vn, card="oneof") for a, vn, vt in o["raw"]]
                    vs.sort(key=lambda v: v["tag"])
                    if sorted(attr["tags"]) != [v["tag"] for v in vs]:
                        # not an extraction problem but a property of the binding under test: prost routes exactly the tags of
                        # the attribute into the oneof on decode, whatever the variants declare. Keep the attribute's list;
                        # the comparison with the baseline descriptor and the decode vectors report the difference.
                        pass
                    entries.append({"name": name, "oneof": True, "tags": sorted(attr["tags"]), "variants": vs})
                else:
                    entries.append(plain(attr, name, tytext, st["mod"], where))
            entries.sort(key=lambda e: min(e["tags"]) if e.get("oneof") else e["tag"])
            tags = [t for e in entries for t in (e["tags"] if e.get("oneof") else [e["tag"]])]
            if len(tags) != len(set(tags)):
                raise ExtractError(f"{st['file']}:{st['line']}: duplicate tag in {st['fq']}")
            messages[st["fq"]] = {"rust": "::".join(st["mod"] + [st["name"]]), "file": st["file"], "line": st["line"],
                                  "fields": entries}
        return messages, enums, unresolved, rule_checked


def alias_initia(p):
    # lib.rs: `pub use tendermint_proto as tendermint;`  `pub use prost_types::Any;`
    if p.startswith("initia_proto::tendermint::"):
        return "tendermint_proto::" + p[len("initia_proto::tendermint::"):]
    return p


ALIASES = {"initia_proto": alias_initia}


def include_tree(lib_rs):
    """[(module path list, included file)] from the `pub mod a { pub mod b { include!("proto/x.rs"); } }` tree"""
    out, stack = [], []
    for ln in open(lib_rs, encoding="utf-8"):
        s = ln.strip()
        if s.startswith("//"):
            continue
        m = re.match(r"^pub mod (\w+|r#\w+)\s*\{$", s)
        if m:
            stack.append(m.group(1).replace("r#", ""))
            continue
        m = re.match(r'^include!\("([^"]+)"\);$', s)
        if m:
            out.append((list(stack), m.group(1)))
            continue
        if s == "}":
            if stack:
                stack.pop()
    return out


def registry_dir(name_version):
    ds = sorted(glob.glob(os.path.join(REGISTRY_GLOB, name_version)))
    if not ds:
        raise ExtractError(f"{name_version} not found in the cargo registry")
    return ds[-1]


def locked_version(repo, crate):
    txt = open(os.path.join(repo, "Cargo.lock"), encoding="utf-8").read()
    vs = re.findall(r'name = "%s"\nversion = "([^"]+)"' % re.escape(crate), txt)
    if not vs:
        raise ExtractError(f"{crate} not in {repo}/Cargo.lock")
    return sorted(vs)[-1]


def extract_tendermint(repo):
    """messages of tendermint-proto (top-level re-export = v0_38) reachable from the bindings"""
    d = registry_dir("tendermint-proto-" + locked_version(repo, "tendermint-proto"))
    c = Crate("tendermint_proto")
    m = re.search(r"pub use (v0_\d+)::\*;", open(os.path.join(d, "src", "tendermint.rs")).read())
    ver = m.group(1)
    for mods, inc in include_tree(os.path.join(d, "src", "tendermint", ver + ".rs")):
        f = os.path.normpath(os.path.join(d, "src", "tendermint", inc))
        c.add_file(f, ["tendermint_proto"] + mods, os.path.basename(f)[:-3])
    msgs, enums, unresolved, _ = c.finish(use_url=False)
    if unresolved:
        raise ExtractError(f"tendermint-proto: unresolved types {unresolved[:5]}")
    return msgs, enums


def extract_prost_types(repo):
    """google.protobuf.* as bound by the prost-types crate pinned in Cargo.lock (Any, Timestamp, descriptor.proto ..)"""
    vs = re.findall(r'name = "prost-types"\nversion = "(0\.12\.[^"]+)"', open(os.path.join(repo, "Cargo.lock")).read())
    if not vs:
        raise ExtractError("prost-types 0.12 not in Cargo.lock")
    d = registry_dir("prost-types-" + sorted(vs)[-1])
    c = Crate("prost_types")
    c.add_file(os.path.join(d, "src", "protobuf.rs"), ["prost_types"], "google.protobuf")
    msgs, enums, unresolved, _ = c.finish(use_url=False)
    if unresolved:
        raise ExtractError(f"prost-types: unresolved types {unresolved[:5]}")
    return msgs, enums


def well_known():
    out = {}
    for fq, fs in WELL_KNOWN.items():
        out[fq] = {"rust": "", "file": "", "line": 0,
                   "fields": [{"name": n, "tag": t, "kind": k, "card": "single", "ty": "", "kk": "", "packed": True}
                              for n, t, k in fs]}
    return out


def parse_type_urls(src_dir, top_mods, strict=False):
    """every `impl TypeUrl for <path> { const TYPE_URL: &'static str = "<url>"; }` outside the generated files"""
    out = []
    nonliteral = []
    for path in sorted(glob.glob(os.path.join(src_dir, "**", "*.rs"), recursive=True)):
        if os.sep + "proto" + os.sep in path:
            continue
        txt = open(path, encoding="utf-8").read()
        for m in re.finditer(r"impl\s+(?:[\w:]+::)?TypeUrl\s+for\s+([\w:#]+)\s*\{\s*const\s+TYPE_URL\s*:\s*&\s*'static\s+str\s*=\s*\"([^\"]*)\"\s*;\s*\}", txt):
            p = m.group(1).replace("r#", "")
            parts = p.split("::")
            if parts[0] == "crate":
                parts = parts[1:]
            if parts[0] not in top_mods:
                raise ExtractError(f"{path}: cannot resolve TypeUrl impl target {m.group(1)}")
            out.append({"rust": "::".join(["initia_proto"] + parts), "rust_src": m.group(1), "url_src": m.group(2),
                        "file": os.path.relpath(path, src_dir), "line": txt.count("\n", 0, m.start()) + 1})
        n_impl = len(re.findall(r"\bTypeUrl\s+for\b", txt))
        n_here = sum(1 for o in out if o["file"] == os.path.relpath(path, src_dir))
        if n_impl != n_here:
            nonliteral.append(f"{path}: {n_impl} `TypeUrl for` occurrences but {n_here} literal registrations parsed")
    if nonliteral:
        # registrations that are not spelled as literal impl blocks (macros, generics): the registry cannot be read off the
        # source any more. Fall back to the committed registry of spec/proto/baseline.json for the types not found - the
        # harness reads each constant through `<T as TypeUrl>::TYPE_URL` at run time, so WHAT is registered for them is still
        # observed, only the LIST of registered types is taken from the baseline.
        bp = os.path.join(SPEC_DIR, "baseline.json")
        if strict or not os.path.exists(bp):
            raise ExtractError("; ".join(nonliteral))
        have = {o["rust"] for o in out}
        for u in json.load(open(bp))["type_urls"]:
            if u["rust"] not in have:
                out.append({"rust": u["rust"], "rust_src": u["rust_src"], "url_src": "", "file": u["file"], "line": 0, "from_baseline": True})
    return out


def count_fields(messages):
    return sum(len(e["variants"]) if e.get("oneof") else 1 for m in messages.values() for e in m["fields"])


def extract_initia(repo):
    src = os.path.join(repo, "packages", "initia-proto", "src")
    tree = include_tree(os.path.join(src, "lib.rs"))
    c = Crate("initia_proto")
    included = set()
    for mods, inc in tree:
        f = os.path.join(src, inc)
        included.add(os.path.basename(f))
        c.add_file(f, ["initia_proto"] + mods, os.path.basename(f)[:-3])
    not_included = sorted(set(os.path.basename(p) for p in glob.glob(os.path.join(src, "proto", "*.rs"))) - included)
    tm_msgs, tm_enums = extract_tendermint(repo)
    pt_msgs, pt_enums = extract_prost_types(repo)
    extra = {v["rust"]: k for k, v in list(tm_msgs.items()) + list(tm_enums.items()) + list(pt_msgs.items()) + list(pt_enums.items())}
    messages, enums, unresolved, _ = c.finish(use_url=False, extra=extra)
    external = well_known()
    for fq in external:
        if [(f["name"], f["tag"], f["kind"], f["card"]) for f in pt_msgs[fq]["fields"]] != \
           [(f["name"], f["tag"], f["kind"], f["card"]) for f in external[fq]["fields"]]:
            raise ExtractError(f"prost-types {fq} differs from the well-known definition")
    external.update(pt_msgs)
    external.update(tm_msgs)
    # keep only the external messages reachable from the package (transitively)
    need, todo = set(), [f["ty"] for m in messages.values() for e in m["fields"]
                         for f in (e["variants"] if e.get("oneof") else [e]) if f["kind"] == "message"]
    while todo:
        t = todo.pop()
        if t in messages or t in need or t.startswith("?"):
            continue
        if t not in external:
            unresolved.append(("external", t))
            continue
        need.add(t)
        todo += [f["ty"] for e in external[t]["fields"] for f in (e["variants"] if e.get("oneof") else [e])
                 if f["kind"] == "message"]
    if unresolved:
        raise ExtractError(f"unresolved type paths: {unresolved[:8]}")
    top_mods = {mods[0] for mods, _ in tree}
    urls = parse_type_urls(src, top_mods)
    rust2fq = {m["rust"]: fq for fq, m in messages.items()}
    for u in urls:
        if u["rust"] not in rust2fq:
            raise ExtractError(f"{u['file']}:{u['line']}: TypeUrl registered for {u['rust']}, which is not a message of the package")
        u["fq"] = rust2fq[u["rust"]]
    return {
        "source": "packages/initia-proto (include! tree of src/lib.rs + src/proto/*.rs)",
        "messages": messages, "enums": enums,
        "external": {k: external[k] for k in sorted(need)},
        "type_urls": urls, "not_included": not_included,
        "stats": {"messages": len(messages), "enums": len(enums), "oneofs": len(c.oneofs),
                  "fields": count_fields(messages), "external_messages": len(need), "type_urls": len(urls),
                  "files_included": len(included), "files_not_included": len(not_included)},
    }


def extract_reference():
    d = registry_dir("osmosis-std-0.25.0")
    c = Crate("osmosis_std")
    base = os.path.join(d, "src", "types")
    for path in sorted(glob.glob(os.path.join(base, "**", "*.rs"), recursive=True)):
        rel = os.path.relpath(path, base)[:-3].split(os.sep)
        if rel[-1] == "mod":
            rel = rel[:-1]
        if not rel:
            continue
        c.add_file(path, ["osmosis_std", "types"] + rel, ".".join(rel))
    messages, enums, unresolved, rule_checked = c.finish(use_url=True)
    if unresolved:
        raise ExtractError(f"osmosis-std: unresolved type paths {unresolved[:8]}")
    ext = well_known()
    return {
        "source": "osmosis-std 0.25.0 src/types/** (cargo registry); FQ names from #[proto_message(type_url)], "
                  "cross-checked against the file-name + nesting rule on every message",
        "messages": messages, "enums": enums, "external": ext,
        "stats": {"messages": len(messages), "enums": len(enums), "oneofs": len(c.oneofs), "fields": count_fields(messages),
                  "naming_rule_confirmed_on": rule_checked, "names_differing_in_letter_case_only": c.case_diffs,
                  "truncated_type_url_attributes": c.url_unusable},
    }


# ------------------------------------------------------------------------------------------------------------
# python-side comparison (informative; the deciding comparison is made by TLC in spec/proto/ProtoTrace.tla)
def flat(msg):
    out = {}
    for e in msg["fields"]:
        for f in (e["variants"] if e.get("oneof") else [e]):
            out[f["tag"]] = f
    return out


def sig(f):
    return (f["kind"], f["card"], f["ty"].lower(), f["kk"], f["packed"])


def shared_names(impl, ref):
    """{impl fq: ref fq}: same protobuf name up to letter case (prost CamelCases message names, see Crate.finish)"""
    low = {}
    for k in ref["messages"]:
        if k.lower() in low:
            raise ExtractError(f"reference names {k} and {low[k.lower()]} differ in letter case only")
        low[k.lower()] = k
    return {k: low[k.lower()] for k in impl["messages"] if k.lower() in low}


# Benign label differences between the reference and the bindings (documented, matched exactly):
# osmosis-std declares PageResponse.next_key as `optional bytes` to keep an explicit empty key; on the wire the
# field is the same length-delimited tag 1, and every encoding produced from a non-empty key is identical.
BENIGN = {("cosmos.base.query.v1beta1.PageResponse", 1): ("optional", "single")}


def compat(ref_msg, impl_msg, fq):
    """reference field must exist with the same tag/kind/cardinality/type; extras in impl need fresh tags (implied by
    tag uniqueness within the message)"""
    probs, extra = [], []
    r, m = flat(ref_msg), flat(impl_msg)
    for t, rf in r.items():
        if t not in m:
            probs.append({"tag": t, "what": "missing", "ref": rf})
            continue
        a, b = sig(rf), sig(m[t])
        if a != b:
            if BENIGN.get((fq, t)) == (rf["card"], m[t]["card"]) and a[0] == b[0] and a[2:] == b[2:]:
                continue
            probs.append({"tag": t, "what": "differs", "ref": rf, "impl": m[t]})
    extra = sorted(set(m) - set(r))
    return probs, extra


def main():
    a = sys.argv[1:]
    repo = os.environ.get("MW_REPO", "/repo")
    if "--repo" in a:
        repo = a[a.index("--repo") + 1]
    cmd = a[0] if a else "current"
    os.makedirs(SPEC_DIR, exist_ok=True)
    try:
        if cmd == "reference":
            t = extract_reference()
            json.dump(t, open(os.path.join(SPEC_DIR, "reference.json"), "w"), indent=0, sort_keys=True)
            print(json.dumps(t["stats"]))
        elif cmd in ("current", "baseline"):
            t = extract_initia(repo)
            out = os.path.join(SPEC_DIR, "baseline.json") if cmd == "baseline" else (a[a.index("--out") + 1] if "--out" in a else None)
            if out:
                json.dump(t, open(out, "w"), indent=0, sort_keys=True)
            print(json.dumps(t["stats"]), "not included:", t["not_included"])
        elif cmd == "compare":
            cur = extract_initia(repo)
            base = json.load(open(os.path.join(SPEC_DIR, "baseline.json")))
            ref = json.load(open(os.path.join(SPEC_DIR, "reference.json")))
            changed = [fq for fq in base["messages"] if fq in cur["messages"] and base["messages"][fq]["fields"] != cur["messages"][fq]["fields"]]
            removed = [fq for fq in base["messages"] if fq not in cur["messages"]]
            shared = shared_names(cur, ref)
            bad, sup = [], []
            for fq, rfq in shared.items():
                p, e = compat(ref["messages"][rfq], cur["messages"][fq], rfq)
                if p:
                    bad.append((fq, p))
                elif e:
                    sup.append(fq)
            print(json.dumps({"changed_vs_baseline": changed, "removed_vs_baseline": removed, "shared": len(shared),
                              "incompatible": bad, "supersets": len(sup)}, indent=1))
        else:
            print(__doc__)
            return 2
    except ExtractError as e:
        print("proto_extract: " + str(e), file=sys.stderr)
        return 2
    return 0


if __name__ == "__main__":
    sys.exit(main())
