#!/bin/sh
# development helper: every registered quick check with a given seed; prints one line per property
seed="${1:-1}"; tier="${2:-quick}"
cd "$(dirname "$0")/.."
for p in C01 C02 C03 C04 C05 C06 C07 C08 C09 C10 C11 C12 C13 C14 C15 C16 C17 C18 C19 C20; do
  t0=$(date +%s)
  VERIF_SEED=$seed ./check $p $tier > work/runall-$p.log 2>&1; rc=$?
  echo "$p seed=$seed tier=$tier exit=$rc wall=$(( $(date +%s) - t0 ))s $(grep -E '^VIOLATION|^KNOWN-FINDING|TOOL ERROR' work/runall-$p.log | head -2 | cut -c1-160 | tr '\n' ' ')"
done
