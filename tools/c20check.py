#!/usr/bin/env python3
"""python3 tools/c20check.py quick|thorough      |      python3 tools/c20check.py --replay <file>

Decides property C20 (protobuf bindings are wire-compatible, type URLs canonical) on the working tree of
$MW_REPO (default /repo):

  1. tools/proto_extract.py re-extracts the descriptor table of packages/initia-proto from the current sources;
  2. spec/proto/MCProtoWire.tla: TLC checks the laws of the wire-format specification spec/proto/ProtoWire.tla
     (decode . encode = id, canonical forms are fixpoints) and that its test vectors separate the field kinds;
  3. spec/proto/ProtoGen.tla: TLC generates, from the ORACLE descriptors (spec/proto/baseline.json; for messages
     that are new, the current ones), the discriminating byte vectors of every field of every message;
  4. protoharness (rebuilt from the current tree; its type registry is regenerated) runs every vector through the
     REAL prost code M::decode / encode_to_vec, through the osmosis-std type of the same protobuf name where one
     exists, and probes every registered TYPE_URL through MessageExt::to_any / from_any;
  5. spec/proto/ProtoTrace.tla: TLC recomputes Decode / Canon of the specification for every observation and
     compares verdict and bytes; it also compares the current descriptors with the baseline (identity) and the
     reference (compatibility), requires byte-identical re-encodings from both code bases wherever the specification
     gives both descriptors the same canonical form, and checks url = "/" + fully-qualified name, Any round
     trips and the rejection of every other URL;
  6. writes evidence/C20.json.

Exit 0: held. Exit 1 + `VIOLATION property=C20 replay=<path>`: the real code contradicts specification, baseline
or reference. Exit 2: tool error (including: the repository does not build).
thorough = quick + seeded random valid messages (and byte-level mutations of them) per message type.
"""
import hashlib, json, os, random, re, shutil, subprocess, sys, time

ROOT = os.path.dirname(os.path.dirname(os.path.abspath(__file__)))
sys.path.insert(0, os.path.join(ROOT, "tools"))
import proto_extract as px  # noqa: E402

SPEC = os.path.join(ROOT, "spec", "proto")
WORK = os.path.join(ROOT, "work", "c20")
EVID = os.path.join(ROOT, "evidence")
REPLAYS = os.path.join(EVID, "replays")
HARNESS = os.path.join(ROOT, "protoharness")
REPO = os.path.abspath(os.environ.get("MW_REPO", "/repo"))
JAVA_OPTS = "-Xss1g -Dtlc2.tool.queue.IStateQueue=StateDeque"
PROP = "C20"
# runs against another root (MW_REPO) keep their scratch files, replay files and evidence apart from those of /repo
REPO_TAG = "" if REPO == "/repo" else "-" + hashlib.sha256(REPO.encode()).hexdigest()[:10]
SHARDS = 8                     # ProtoGen / ProtoTrace runs side by side (1 TLC worker each)
RANDOM_PER_MESSAGE = 24        # thorough: random valid encodings per message type (and as many mutated ones)
RUST_KEYWORDS = {"move", "type", "mod", "use", "ref", "fn", "impl", "in", "box", "as", "async", "await", "loop", "match",
                 "where", "yield", "final", "override", "abstract", "static", "struct", "enum", "trait", "self", "super",
                 "crate", "pub", "let", "mut", "const", "dyn", "unsafe", "extern", "true", "false", "if", "else", "for",
                 "while", "return", "break", "continue", "virtual", "priv", "macro", "try", "typeof", "unsized", "become", "do"}


class ToolError(Exception):
    pass


def log(*a):
    print(*a, file=sys.stderr, flush=True)


def sh(cmd, cwd=None, env=None, timeout=None):
    e = dict(os.environ)
    e["CARGO_NET_OFFLINE"] = "true"
    if env:
        e.update(env)
    try:
        p = subprocess.run(cmd, cwd=cwd, env=e, timeout=timeout, stdout=subprocess.PIPE, stderr=subprocess.STDOUT, text=True)
    except subprocess.TimeoutExpired as ex:
        out = ex.stdout if isinstance(ex.stdout, str) else (ex.stdout or b"").decode("utf-8", "replace")
        raise ToolError(f"timeout after {timeout}s: {' '.join(cmd)}\n{out[-2000:]}")
    return p.returncode, p.stdout


# ------------------------------------------------------------------------------------------------- TLC
STAT_RE = re.compile(r"(\d+) states generated, (\d+) distinct states found")


def tlc_cmd(module, cfg, md, workers=1):
    return ["timeout", "900", "tlc", "-workers", str(workers), "-metadir", md, "-cleanup", "-noGenerateSpecTE",
            "-config", cfg, module]


def tlc_env(env, xmx):
    e = dict(os.environ)
    e["JAVA_TOOL_OPTIONS"] = f"{JAVA_OPTS} -Xmx{xmx}"
    e.update(env or {})
    return e


def tlc_start(name, module, cfg, workdir, env=None, workers=1, xmx="3g"):
    md = os.path.join(workdir, "md-" + name)
    shutil.rmtree(md, ignore_errors=True)
    logf = open(os.path.join(workdir, name + ".tlc.out"), "w")
    p = subprocess.Popen(tlc_cmd(module, cfg, md, workers), cwd=workdir, env=tlc_env(env, xmx), stdout=logf,
                         stderr=subprocess.STDOUT, text=True)
    return {"p": p, "log": logf, "md": md, "t0": time.time(), "name": name}


def tlc_wait(h, timeout=900):
    try:
        rc = h["p"].wait(timeout=timeout)
    except subprocess.TimeoutExpired:
        h["p"].kill()
        h["p"].wait()
        raise ToolError(f"TLC run {h['name']} exceeded {timeout}s")
    finally:
        h["log"].close()
    shutil.rmtree(h["md"], ignore_errors=True)
    out = open(h["log"].name).read()
    m = STAT_RE.search(out)
    return rc, out, time.time() - h["t0"], (int(m.group(1)), int(m.group(2))) if m else (0, 0)


def unq(s):
    return json.loads('"' + s + '"')


def printed(out, prefix):
    """payloads of the lines TLC printed through PrintT("<prefix> <json>")"""
    res = []
    for line in out.splitlines():
        line = line.strip()
        if line.startswith('"' + prefix + " ") and line.endswith('"'):
            res.append(json.loads(unq(line[1:-1])[len(prefix) + 1:]))
    return res


def model_check_start(workdir):
    return tlc_start("MCProtoWire", os.path.join(SPEC, "MCProtoWire.tla"), os.path.join(SPEC, "MCProtoWire.cfg"), workdir,
                     workers=4, xmx="4g")


def model_check_finish(h):
    rc, out, wall, (gen, dist) = tlc_wait(h, 600)
    if "Model checking completed. No error has been found." not in out:
        raise ToolError("spec/proto/MCProtoWire: TLC found a violated law or failed\n" + out[-3000:])
    log(f"[mc] ProtoWire laws + measured behaviours + separation: {dist} distinct states, {gen} generated, {wall:.1f}s")
    return {"states": dist, "transitions": gen, "wall_s": round(wall, 1)}


# ------------------------------------------------------------------------------------------------- descriptors
def tla_field(f, gname):
    return {"tag": f["tag"], "kind": f["kind"], "card": f["card"], "ty": f["ty"] if f["kind"] == "message" else "",
            "lty": f["ty"].lower(), "kk": f["kk"], "packed": bool(f["packed"]), "name": f["name"], "gname": gname}


def tla_entries(msg):
    return [{"oneof": bool(e.get("oneof")),
             "fs": [tla_field(f, e["name"] if e.get("oneof") else "") for f in (e["variants"] if e.get("oneof") else [e])]}
            for e in msg["fields"]]


def all_msgs(table):
    d = dict(table.get("external", {}))
    d.update(table["messages"])
    return d


def child_types(msg):
    return [f["ty"] for e in msg["fields"] for f in (e["variants"] if e.get("oneof") else [e]) if f["kind"] == "message"]


def table_for(msgs, fq, depth):
    """descriptor table: fq plus the message types reachable through at most `depth` message fields"""
    T, frontier = {fq: tla_entries(msgs[fq])}, [fq]
    for _ in range(depth):
        nxt = []
        for n in frontier:
            for c in child_types(msgs[n]):
                if c not in T and c in msgs:
                    T[c] = tla_entries(msgs[c])
                    nxt.append(c)
        frontier = nxt
    return T


# ------------------------------------------------------------------------------------------------- harness
def rust_path(p):
    return "::".join("r#" + s if s in RUST_KEYWORDS else s for s in p.split("::"))


def gen_registry(cur, ref, shared):
    lines = ["// GENERATED by tools/c20check.py from the current source tree -- do not edit, not committed.",
             "#![allow(deprecated)]",
             "use crate::{run, url_probe, DecFn, UrlFn};",
             "use initia_proto::traits::TypeUrl;", "",
             "pub static MSGS: &[(&str, DecFn, Option<DecFn>)] = &["]
    for fq in sorted(cur["messages"]):
        m = cur["messages"][fq]
        r = f"Some(run::<{rust_path(ref['messages'][shared[fq]]['rust'])}>)" if fq in shared else "None"
        lines.append(f'    ("{fq}", run::<{rust_path(m["rust"])}>, {r}),')
    lines += ["];", "", "pub static URLS: &[(&str, UrlFn)] = &["]
    for u in cur["type_urls"]:
        lines.append(f'    ("{u["rust"]}", url_probe::<{rust_path(u["rust"])}>),')
    lines += ["];", "", "pub static ALL_URLS: &[&str] = &["]
    for u in cur["type_urls"]:
        lines.append(f"    <{rust_path(u['rust'])} as TypeUrl>::TYPE_URL,")
    lines += ["];", ""]
    return "\n".join(lines)


def prepare_harness(cur, ref, shared):
    """the crate directory to build: protoharness itself for /repo, an instantiated copy for another root"""
    if REPO == "/repo":
        d = HARNESS
    else:
        d = os.path.join(WORK, "harness" + REPO_TAG)
        os.makedirs(os.path.join(d, "src"), exist_ok=True)
        os.makedirs(os.path.join(d, ".cargo"), exist_ok=True)
        toml = open(os.path.join(HARNESS, "Cargo.toml")).read()
        if toml.count('"/repo/packages/initia-proto"') != 1:
            raise ToolError("protoharness/Cargo.toml: initia-proto path dependency not found")
        write_if_changed(os.path.join(d, "Cargo.toml"), toml.replace('"/repo/packages/initia-proto"', f'"{REPO}/packages/initia-proto"'))
        write_if_changed(os.path.join(d, ".cargo", "config.toml"), open(os.path.join(HARNESS, ".cargo", "config.toml")).read())
        write_if_changed(os.path.join(d, "src", "main.rs"), open(os.path.join(HARNESS, "src", "main.rs")).read())
        if not os.path.exists(os.path.join(d, "Cargo.lock")):
            shutil.copy(os.path.join(HARNESS, "Cargo.lock"), os.path.join(d, "Cargo.lock"))
    write_if_changed(os.path.join(d, "src", "registry.rs"), gen_registry(cur, ref, shared))
    return d


def write_if_changed(path, text):
    if os.path.exists(path) and open(path).read() == text:
        return
    with open(path, "w") as f:
        f.write(text)


def cargo_build(d):
    t0 = time.time()
    rc, out = sh(["cargo", "build", "--release", "--offline"], cwd=d, timeout=3000)
    if rc != 0:
        raise ToolError(f"protoharness build failed (does {REPO} still compile?)\n" + out[-5000:])
    wall = time.time() - t0
    log(f"[build] protoharness ok in {wall:.1f}s ({d})")
    return os.path.join(d, "target", "release", "protoharness"), wall


def hexs(b):
    return bytes(b).hex()


def run_harness(binp, lines, workdir, tag):
    src, dst = os.path.join(workdir, f"vectors-{tag}.ndjson"), os.path.join(workdir, f"observations-{tag}.ndjson")
    with open(src, "w") as f:
        for ln in lines:
            f.write(json.dumps(ln, separators=(",", ":")) + "\n")
    t0 = time.time()
    rc, out = sh([binp, src, dst], timeout=900)
    if rc != 0:
        raise ToolError(f"protoharness failed rc={rc}\n{out[-3000:]}")
    obs = [json.loads(x) for x in open(dst)]
    if len(obs) != len(lines):
        raise ToolError(f"protoharness answered {len(obs)} lines for {len(lines)}")
    log(f"[harness] {len(lines)} lines through the real code in {time.time()-t0:.1f}s")
    return obs, dst


# ------------------------------------------------------------------------------------------------- vectors
def gen_vectors(tables, workdir):
    """TLC evaluates ProtoWire!MsgVectors for every descriptor table: {fq: [(id, bytes)]}"""
    names = sorted(tables)
    handles = []
    per = (len(names) + SHARDS - 1) // SHARDS
    for s in range(SHARDS):
        part = names[s * per:(s + 1) * per]
        if not part:
            continue
        path = os.path.join(workdir, f"descs-{s}.ndjson")
        with open(path, "w") as f:
            for fq in part:
                f.write(json.dumps({"fq": fq, "T": tables[fq]}, separators=(",", ":")) + "\n")
        handles.append((part, tlc_start(f"ProtoGen-{s}", os.path.join(SPEC, "ProtoGen.tla"), os.path.join(SPEC, "ProtoGen.cfg"),
                                        workdir, env={"DESCS": path})))
    out_vecs, states, trans, wall = {}, 0, 0, 0.0
    for part, h in handles:
        rc, out, w, (gen, dist) = tlc_wait(h, 900)
        if f"DESCS-CONSUMED {len(part)}" not in out or "No error has been found" not in out:
            raise ToolError(f"vector generation ({h['name']}) failed\n" + out[-3000:])
        for r in printed(out, "VEC"):
            out_vecs[r["fq"]] = sorted(((v["id"], v["bs"]) for v in r["vec"]), key=lambda x: x[0])
        states += dist
        trans += gen
        wall = max(wall, w)
    if set(out_vecs) != set(names):
        raise ToolError("vector generation lost messages: " + str(sorted(set(names) - set(out_vecs))[:5]))
    nv = sum(len(v) for v in out_vecs.values())
    log(f"[gen] TLC generated {nv} vectors for {len(names)} messages in {wall:.1f}s ({len(handles)} runs)")
    return out_vecs, {"states": states, "transitions": trans, "wall_s": round(wall, 1), "vectors": nv}


# random valid encodings (thorough): produced here, judged by the specification like every other vector
def rnd_varint(rng):
    c = rng.random()
    if c < 0.3:
        v = rng.randrange(0, 3)
    elif c < 0.6:
        v = rng.randrange(0, 1 << 31)
    elif c < 0.8:
        v = rng.randrange(0, 1 << 64)
    else:
        v = rng.choice([(1 << 64) - 1, (1 << 32) - 1, 1 << 31, 1 << 32, (1 << 63), 127, 128, 300])
    return v


def enc_varint(v):
    out = []
    while True:
        b = v & 0x7F
        v >>= 7
        if v:
            out.append(b | 0x80)
        else:
            out.append(b)
            return out


WT = {"string": 2, "bytes": 2, "message": 2, "fixed64": 1, "sfixed64": 1, "double": 1, "fixed32": 5, "sfixed32": 5, "float": 5}


def rnd_scalar(rng, kind):
    if kind in ("string",):
        return enc_len([rng.choice(b"abcxyz01/. ") for _ in range(rng.randrange(0, 6))] + (list("é".encode()) if rng.random() < 0.2 else []))
    if kind == "bytes":
        return enc_len([rng.randrange(256) for _ in range(rng.randrange(0, 6))])
    if WT.get(kind) == 1:
        return [rng.randrange(256) for _ in range(8)] if kind != "double" else [0, 0, 0, 0, 0, 0, rng.randrange(1, 255), 63]
    if WT.get(kind) == 5:
        return [rng.randrange(256) for _ in range(4)] if kind != "float" else [0, 0, rng.randrange(1, 127), 63]
    return enc_varint(rnd_varint(rng))


def enc_len(bs):
    return enc_varint(len(bs)) + list(bs)


def rnd_message(rng, msgs, fq, depth):
    out = []
    for e in msgs[fq]["fields"]:
        if e.get("oneof"):
            if rng.random() < 0.3:
                continue
            fs = [rng.choice(e["variants"])]
        else:
            fs = [e]
        for f in fs:
            if rng.random() < 0.25 and f["card"] != "required":
                continue
            key = enc_varint(f["tag"] << 3 | WT.get(f["kind"], 0))
            reps = rng.randrange(1, 4) if f["card"] == "repeated" else 1
            if f["card"] == "map":
                kk = enc_varint(1 << 3 | WT.get(f["kk"], 0)) + rnd_scalar(rng, f["kk"])
                vv = enc_varint(2 << 3 | WT.get(f["kind"], 0)) + (
                    enc_len(rnd_message(rng, msgs, f["ty"], depth - 1) if depth > 0 and f["ty"] in msgs else [])
                    if f["kind"] == "message" else rnd_scalar(rng, f["kind"]))
                out += enc_varint(f["tag"] << 3 | 2) + enc_len(kk + vv)           # one entry: HashMap order is not modelled
                continue
            if f["card"] == "repeated" and f["kind"] not in ("string", "bytes", "message") and rng.random() < 0.7:
                out += enc_varint(f["tag"] << 3 | 2) + enc_len([b for _ in range(reps) for b in rnd_scalar(rng, f["kind"])])
                continue
            for _ in range(reps):
                if f["kind"] == "message":
                    inner = rnd_message(rng, msgs, f["ty"], depth - 1) if depth > 0 and f["ty"] in msgs else []
                    out += key + enc_len(inner)
                else:
                    out += key + rnd_scalar(rng, f["kind"])
    return out


def mutate(rng, bs):
    bs = list(bs)
    if not bs:
        return [rng.randrange(256)]
    c = rng.random()
    i = rng.randrange(len(bs))
    if c < 0.4:
        bs[i] = rng.randrange(256)
    elif c < 0.6:
        bs[i] ^= 1 << rng.randrange(8)
    elif c < 0.8:
        del bs[i:]
    else:
        bs.insert(i, rng.randrange(256))
    return bs


# ------------------------------------------------------------------------------------------------- validation
def benign_for(rfq):
    return [{"tag": t, "ref": a, "impl": b} for (fq, t), (a, b) in px.BENIGN.items() if fq == rfq]


def build_records(oracle, cur, base, ref, shared, vectors, obs_by_fq, depth):
    """one record per message for ProtoTrace: descriptors (oracle table, current root, baseline root, reference table)
    and what the real code did on every vector"""
    omsgs, rmsgs = all_msgs(oracle), all_msgs(ref)
    recs = []
    for fq in sorted(vectors):
        o = obs_by_fq[fq]
        ob = {x["id"]: x for x in o.get("obs", [])}
        hasref = fq in shared and fq in cur["messages"]
        r = {"t": "msg", "fq": fq, "T": table_for(omsgs, fq, depth),
             "incur": fq in cur["messages"], "inbase": fq in base["messages"], "hasref": hasref,
             "missing": bool(o.get("missing")), "vec": []}
        if r["incur"]:
            r["cur"] = tla_entries(cur["messages"][fq])
        if r["inbase"]:
            r["base"] = tla_entries(base["messages"][fq])
        if hasref:
            r["rname"] = shared[fq]
            r["R"] = table_for(rmsgs, shared[fq], depth)
            r["benign"] = benign_for(shared[fq])
            if bool(o.get("hasref")) != hasref:
                raise ToolError(f"{fq}: registry and descriptor tables disagree on the reference type")
        for vid, bs in vectors[fq]:
            x = ob.get(vid)
            if x is None:
                if r["missing"]:
                    continue
                raise ToolError(f"{fq}: no observation for vector {vid}")
            v = {"id": vid, "b": list(bs), "ok": x["ok"], "c": list(bytes.fromhex(x["c"])), "rt": x["rt"]}
            if hasref:
                v.update(rok=x["rok"], rc=list(bytes.fromhex(x["rc"])), rrt=x["rrt"])
            r["vec"].append(v)
        recs.append(r)
    return recs


def validate(recs, workdir, tag):
    """ProtoTrace over the records, sharded; returns (findings, stats)"""
    for i, r in enumerate(recs):
        r["i"] = i + 1
    shards = [s for s in (recs[k::SHARDS] for k in range(SHARDS)) if s]
    handles = []
    for k, part in enumerate(shards):
        path = os.path.join(workdir, f"trace-{tag}-{k}.ndjson")
        with open(path, "w") as f:
            for r in part:
                f.write(json.dumps(r, separators=(",", ":")) + "\n")
        handles.append((part, path, tlc_start(f"ProtoTrace-{tag}-{k}", os.path.join(SPEC, "ProtoTrace.tla"),
                                              os.path.join(SPEC, "ProtoTrace.cfg"), workdir, env={"TRACE": path})))
    findings, states, trans, wall = [], 0, 0, 0.0
    for part, path, h in handles:
        rc, out, w, (gen, dist) = tlc_wait(h, 900)
        if f"TRACE-CONSUMED {len(part)}" not in out or "Model checking completed. No error has been found." not in out:
            raise ToolError(f"trace validation did not consume {path}\n" + out[-3000:])
        for rec in printed(out, "FINDING"):
            findings += rec["fs"]
        states += dist
        trans += gen
        wall = max(wall, w)
    log(f"[trace] {tag}: {len(recs)} records validated by TLC in {wall:.1f}s ({len(handles)} runs), {len(findings)} findings")
    return findings, {"states": states, "transitions": trans, "wall_s": round(wall, 1), "files": len(handles)}


def load_known():
    p = os.path.join(ROOT, "known_findings.json")
    if not os.path.exists(p):
        return []
    return [k for k in json.load(open(p)).get("findings", []) if k.get("status") == "known" and k.get("property") == PROP]


def is_known(f, known):
    for k in known:
        if all(str(f.get(kk)) == str(vv) for kk, vv in k.get("match", {}).items()):
            return k
    return None


def write_replay(tag, findings, recs):
    os.makedirs(REPLAYS, exist_ok=True)
    path = os.path.join(REPLAYS, f"{PROP}-{tag}{REPO_TAG}.ndjson")
    by_i = {r["i"]: r for r in recs}
    want = {}
    for f in findings:
        want.setdefault(f["i"], set()).add(f.get("id", ""))
    with open(path, "w") as out:
        out.write(json.dumps({"property": PROP, "repo": REPO, "findings": findings}) + "\n")
        for i in sorted(want):
            r = dict(by_i[i])
            if r["t"] == "msg":
                r["vec"] = [v for v in r["vec"] if v["id"] in want[i]]
            out.write(json.dumps(r, separators=(",", ":")) + "\n")
    return path


# ------------------------------------------------------------------------------------------------- the check
def load_tables():
    try:
        cur = px.extract_initia(REPO)
    except px.ExtractError as e:
        raise ToolError("descriptor extraction failed: " + str(e))
    except FileNotFoundError as e:
        raise ToolError("descriptor extraction failed: " + str(e))
    base = json.load(open(os.path.join(SPEC, "baseline.json")))
    ref = json.load(open(os.path.join(SPEC, "reference.json")))
    # the oracle: baseline descriptors; for messages the baseline does not know, the current ones
    oracle = {"messages": dict(cur["messages"]), "external": dict(cur["external"])}
    oracle["external"].update(base["external"])
    oracle["messages"].update(base["messages"])
    shared = px.shared_names(oracle, ref)
    return cur, base, ref, oracle, shared


def url_lines(cur, vectors):
    out = []
    for u in cur["type_urls"]:
        sample = dict(vectors.get(u["fq"], [])).get("m.all", [])
        out.append({"t": "url", "rust": u["rust"], "sample": hexs(sample)})
    return out


def url_records(cur, oracle, obs):
    recs = []
    for u, o in zip(cur["type_urls"], obs):
        if o.get("missing") or o["rust"] != u["rust"]:
            raise ToolError(f"harness has no TypeUrl probe for {u['rust']}")
        nf = len(oracle["messages"][u["fq"]]["fields"])
        r = {"t": "url", "fq": u["fq"], "rust": u["rust"], "file": u["file"], "line": u["line"], "nfields": nf}
        r.update({k: o[k] for k in ("url", "any_url", "rt_default", "nondefault", "rt_value", "own_accepted", "foreign_tried",
                                    "foreign_accepted", "mangled_tried", "mangled_accepted", "registered")})
        recs.append(r)
    return recs


def check(tier, seed, only=None):
    t_start = time.time()
    os.makedirs(WORK, exist_ok=True)
    workdir = os.path.join(WORK, ("replay" if only else tier) + REPO_TAG)
    shutil.rmtree(workdir, ignore_errors=True)
    os.makedirs(workdir)
    cur, base, ref, oracle, shared = load_tables()
    omsgs = all_msgs(oracle)
    st = cur["stats"]
    log(f"[extract] {REPO}: {st['messages']} messages, {st['fields']} fields, {st['enums']} enums, {st['oneofs']} oneofs, "
        f"{st['type_urls']} type URLs; {len(shared)} messages shared with osmosis-std")
    mc = None if only else model_check_start(workdir)
    hdir = prepare_harness(cur, ref, shared)
    binp, build_wall = cargo_build(hdir)

    fqs = sorted(set(oracle["messages"]))
    if only:
        for u in cur["type_urls"]:          # a replayed URL probe needs the non-default sample of its message
            if u["rust"] in only["urls"]:
                only["msgs"].setdefault(u["fq"], {})
        fqs = [fq for fq in fqs if fq in only["msgs"]]
    # kind-level vectors need the message and its direct children only
    vectors, gen_stats = gen_vectors({fq: table_for(omsgs, fq, 1) for fq in fqs}, workdir) if fqs else ({}, {"states": 0, "transitions": 0, "wall_s": 0, "vectors": 0})
    depth = 64          # records carry the transitive closure of the message's descriptor (1.6 MB for all messages)
    n_random = 0
    if tier == "thorough" and not only:
        rng = random.Random(seed)
        for fq in fqs:
            extra = []
            for k in range(RANDOM_PER_MESSAGE):
                b = rnd_message(rng, omsgs, fq, 2)
                extra.append((f"r.{k}", b))
                extra.append((f"x.{k}", mutate(rng, b)))
            vectors[fq] = vectors[fq] + extra
            n_random += len(extra)
    if only:
        for fq in fqs:
            have = dict(vectors[fq])
            extra = {vid: b for vid, b in only["msgs"][fq].items() if vid and vid not in have}
            vectors[fq] = [(vid, b) for vid, b in vectors[fq] if vid in only["msgs"][fq] or vid == "m.all"] + sorted(extra.items())

    lines = [{"t": "msg", "fq": fq, "vec": [{"id": vid, "b": hexs(b)} for vid, b in vectors[fq]]} for fq in fqs]
    ulines = url_lines(cur, vectors) if not only else [u for u in url_lines(cur, vectors) if u["rust"] in only["urls"]]
    obs, obs_file = run_harness(binp, lines + ulines, workdir, "all")
    obs_by_fq = {o["fq"]: o for o in obs[:len(lines)]}
    recs = build_records(oracle, cur, base, ref, shared, vectors, obs_by_fq, depth)
    ucur = cur if not only else dict(cur, type_urls=[u for u in cur["type_urls"] if u["rust"] in only["urls"]])
    recs += url_records(ucur, oracle, obs[len(lines):])
    # enumerations: numbers of the baseline / reference values must be unchanged
    if not only or only.get("enums"):
        recs += enum_records(cur, base, ref)
    findings, tr_stats = validate(recs, workdir, "all")
    # type URLs spelled as string literals in the contracts (the token-factory glue hard-codes the URLs of three binding
    # messages): each must be "/" + the fully-qualified name of a message of the bindings (or of the reference binding)
    if not only or only.get("lits"):
        lrecs, lfind = literal_urls(cur, ref, len(recs))
        recs += lrecs
        findings += lfind
    mc_stats = model_check_finish(mc) if mc else {"states": 0, "transitions": 0, "wall_s": 0}
    return dict(cur=cur, shared=shared, recs=recs, findings=findings, vectors=vectors, gen=gen_stats, trace=tr_stats, mc=mc_stats,
                build_wall=build_wall, n_random=n_random, wall=time.time() - t_start, obs_file=obs_file, oracle=oracle, base=base)


def literal_urls(cur, ref, n0):
    import glob, re
    known = set(cur["messages"]) | set(ref["messages"])
    recs, finds = [], []
    for path in sorted(glob.glob(os.path.join(REPO, "contracts", "*", "src", "**", "*.rs"), recursive=True)):
        if os.sep + "tests" + os.sep in path:
            continue
        txt = open(path, encoding="utf-8").read()
        for m in re.finditer(r'type_url\s*:\s*"(/[^"]*)"', txt):
            url = m.group(1)
            r = {"t": "lit", "i": n0 + len(recs) + 1, "url": url, "file": os.path.relpath(path, REPO), "line": txt.count("\n", 0, m.start()) + 1,
                 "known": url[1:] in known}
            recs.append(r)
            if not r["known"]:
                finds.append({"i": r["i"], "kind": "url-literal", "id": url, "file": r["file"], "line": r["line"],
                              "want": "\"/\" + the fully-qualified name of a message of the bindings"})
    return recs, finds


def enum_records(cur, base, ref):
    low = {k.lower(): k for k in ref["enums"]}
    recs = []
    for fq in sorted(set(cur["enums"]) | set(base["enums"])):
        r = {"t": "enum", "fq": fq, "incur": fq in cur["enums"], "inbase": fq in base["enums"], "hasref": fq.lower() in low}
        if r["incur"]:
            r["cur"] = [{"name": n, "num": v} for n, v in cur["enums"][fq]["values"]]
        if r["inbase"]:
            r["base"] = [{"name": n, "num": v} for n, v in base["enums"][fq]["values"]]
        if r["hasref"]:
            r["ref"] = [{"name": n, "num": v} for n, v in ref["enums"][low[fq.lower()]]["values"]]
        recs.append(r)
    return recs


def describe(f):
    return " ".join(f"{k}={json.dumps(v) if not isinstance(v, str) else v}" for k, v in f.items() if k != "i")


def report(res, tier, seed, replay_tag=None):
    known = load_known()
    real, kn = [], []
    for f in res["findings"]:
        k = is_known(f, known)
        (kn if k else real).append((f, k))
    for f, k in kn:
        print(f"KNOWN-FINDING: property={PROP} {k.get('what', '')} [{describe(f)}]")
    for f, _ in real[:40]:
        print("FINDING " + json.dumps(f, sort_keys=True))
    if len(real) > 40:
        print(f"... {len(real) - 40} more findings in the replay file")
    path = None
    if real and replay_tag != "replayed":
        path = write_replay(replay_tag or f"{tier}-seed{seed}", [f for f, _ in real], res["recs"])
    return real, kn, path


def write_evidence(res, tier, seed, real, kn):
    recs = res["recs"]
    msgs = [r for r in recs if r["t"] == "msg"]
    nvec = sum(len(r["vec"]) for r in msgs)
    fields_cov = sum(sum(len(e["fs"]) for e in r["T"][r["fq"]]) for r in msgs)
    skipped = [{"message": r["fq"], "reason": "in the baseline but no longer in the source tree (reported as a finding)"}
               for r in msgs if r["missing"]]
    skipped += [{"file": f, "reason": "generated file is not included by src/lib.rs: its messages are not part of the crate"}
                for f in res["cur"]["not_included"]]
    samples = []
    for r in msgs:
        if r["fq"] in ("cosmos.bank.v1beta1.MsgSend", "cosmos.base.query.v1beta1.PageResponse") and r["vec"]:
            for v in r["vec"]:
                if v["id"] in ("f1.nonutf8", "f3.merge", "m.rev", "f2.over32", "f1.empty"):
                    samples.append({"message": r["fq"], "vector": v["id"], "bytes": hexs(v["b"]), "impl_ok": v["ok"],
                                    "impl_reencoding": hexs(v["c"]), "reference_reencoding": hexs(v.get("rc", [])) if r["hasref"] else None})
    urls = [r for r in recs if r["t"] == "url"]
    samples += [{"type_url_probe": {k: u[k] for k in ("rust", "fq", "url", "rt_default", "rt_value", "foreign_tried", "foreign_accepted")}}
                for u in urls[:2]]
    if not samples:
        samples = [{"message": r["fq"], "vector": v["id"], "bytes": hexs(v["b"]), "impl_ok": v["ok"]} for r in msgs[:1] for v in r["vec"][:3]] or [{"note": "no vectors"}]
    ev = {
        "property_id": PROP, "tier": tier, "seed": seed, "level": "model_checking",
        "wall_s": round(res["wall"], 1), "violations": len(real),
        "coverage": {
            "states": res["mc"]["states"] + res["gen"]["states"] + res["trace"]["states"],
            "transitions": res["mc"]["transitions"] + res["gen"]["transitions"] + res["trace"]["transitions"],
            "traces_validated_against_impl": res["trace"]["files"],
            "samples": samples,
            "tlc_runs": {"MCProtoWire": res["mc"], "ProtoGen": res["gen"], "ProtoTrace": res["trace"]},
            "messages_covered": len([r for r in msgs if not r["missing"]]),
            "fields_covered": fields_cov,
            "vectors": nvec,
            "vectors_generated_by_tlc": res["gen"]["vectors"],
            "random_vectors_generated_by_python": res["n_random"],
            "records_validated_by_tlc": len(recs),
            "type_urls_checked": len(urls),
            "enums_compared": len([r for r in recs if r["t"] == "enum"]),
            "shared_messages_cross_checked": len([r for r in msgs if r["hasref"] and not r["missing"]]),
            "baseline_only_messages": len([r for r in msgs if not r["hasref"] and r["inbase"]]),
            "messages_not_in_baseline": len([r for r in msgs if not r["inbase"]]),
            "skipped_messages": skipped,
            "known_findings_matched": len(kn),
            "repo": REPO,
            "harness_build_s": round(res["build_wall"], 1),
            "checker_cmd": "tlc spec/proto/MCProtoWire.tla ; tlc spec/proto/ProtoGen.tla (DESCS=<ndjson>) ; protoharness/target/release/protoharness "
                           "<vectors> <observations> ; tlc spec/proto/ProtoTrace.tla (TRACE=<ndjson>)",
            "vector_generation": "every kind-level vector is the value of ProtoWire!MsgVectors evaluated by TLC on the oracle descriptor "
                                 "of the message (no instantiation in Python); the r.* / x.* vectors of the thorough tier are random "
                                 "encodings produced by Python, their expected outcome is computed by TLC like for every other vector",
        },
        "assumptions": [
            "spec/proto/baseline.json (descriptors extracted from the pinned tree) is the oracle for the "
            f"{len([r for r in msgs if not r['hasref'] and r['inbase']])} messages without an "
            "independent reference: for those the check detects CHANGES, not errors already present when the baseline was taken",
            "osmosis-std 0.25.0 (cargo registry) is an independently generated binding of the shared Cosmos/IBC messages",
            "tools/proto_extract.py reads the prost attributes correctly (cross-checked: the real code must behave as the extracted "
            "descriptor predicts on every vector, and its naming rule reproduces all osmosis-std type URLs up to letter case)",
            "message names are compared up to letter case (prost CamelCases acronyms); map fields are exercised with at most one key "
            "(HashMap iteration order); -0.0 floats, groups deeper than prost's recursion limit and unknown-field retention are out of scope",
        ],
    }
    os.makedirs(EVID, exist_ok=True)
    # evidence/C20.json describes /repo; a run against another root leaves its evidence next to its scratch files
    path = os.path.join(EVID, f"{PROP}.json") if REPO == "/repo" else os.path.join(WORK, tier + REPO_TAG, f"{PROP}.json")
    with open(path, "w") as f:
        json.dump(ev, f, indent=1)
    log(f"[evidence] {path}")
    return ev


def main():
    a = sys.argv[1:]
    seed = int(os.environ.get("VERIF_SEED", "1"))
    try:
        if len(a) == 2 and a[0] == "--replay":
            lines = [json.loads(x) for x in open(a[1]) if x.strip()]
            only = {"msgs": {}, "urls": set(), "enums": False}
            for r in lines[1:]:
                if r["t"] == "msg":
                    only["msgs"][r["fq"]] = {v["id"]: v["b"] for v in r["vec"]}
                elif r["t"] == "url":
                    only["urls"].add(r["rust"])
                elif r["t"] == "enum":
                    only["enums"] = True
                elif r["t"] == "lit":
                    only["lits"] = True
            res = check("quick", seed, only=only)
            real, kn, path = report(res, "quick", seed, replay_tag="replayed")
            if real:
                print(f"VIOLATION property={PROP} replay={a[1]}")
                return 1
            print(f"replay of {a[1]}: property {PROP} holds on the current tree ({len(res['recs'])} records)")
            return 0
        if len(a) != 1 or a[0] not in ("quick", "thorough"):
            print(__doc__)
            return 2
        tier = a[0]
        res = check(tier, seed)
        real, kn, path = report(res, tier, seed)
        ev = write_evidence(res, tier, seed, real, kn)
        c = ev["coverage"]
        log(f"[{PROP}] {tier}: {c['messages_covered']} messages, {c['fields_covered']} fields, {c['vectors']} vectors, "
            f"{c['shared_messages_cross_checked']} cross-checked, {c['type_urls_checked']} type URLs, wall {ev['wall_s']}s")
        if real:
            print(f"VIOLATION property={PROP} replay={path}")
            return 1
        print(f"{PROP} held ({tier}, seed {seed})")
        return 0
    except ToolError as e:
        print(f"TOOL-ERROR property={PROP}: {e}", file=sys.stderr)
        return 2


if __name__ == "__main__":
    sys.exit(main())
