#!/usr/bin/env python3
"""Renders what every registered check runs (DESIGN.md Appendix L) from tools/mwcheck.py PLANS / HOOKS / REQUIRED."""
import os, sys
sys.path.insert(0, os.path.dirname(os.path.abspath(__file__)))
import mwcheck as M
hooks = {"C04": "TLAPS proofs of the arithmetic lemmas; small / 128-bit vectors of the real helpers vs ArithCore (TLC, Apalache); Apalache lemmas",
         "C06": "liveness on the closed model (MilkyWayLive)", "C07": "liveness on the closed model (MilkyWayLive)",
         "C09": "derivation vectors (HookTrace), authentication sweep (HookAuthTrace), unambiguity lemma (HookLemma)",
         "C12": "Apalache inductive invariant (OwnershipInd)", "C14": "TLC-enumerated configuration messages and validator sequences (ConfigMC -> ConfigTrace)",
         "C16": "migrate vectors, configuration messages, query sweeps: panics", "C17": "paging theorem (QueriesMC), query sweeps (QueryTrace)",
         "C18": "migrate vectors on raw legacy stores (MigrateTrace)", "C19": "both builds: replays, walks, scenarios pairwise (DualTrace, DualWide); wire level (TfWire)"}
def fmt(xs): return ", ".join(xs) if xs else "-"
print("| property | tier | models checked by TLC | models whose every transition is replayed on the real code | walks (mode x runs x steps) | scenarios | wide-range runs | further |")
print("| --- | --- | --- | --- | --- | --- | --- | --- |")
for p in sorted(M.PLANS):
    pl = M.PLANS[p]
    for tier in ("quick", "thorough"):
        walks = ", ".join(f"{m} {r}x{s}" for (m, r, s) in pl["walks"][tier]) or "-"
        wide = ", ".join(f"{r}x{s}{' (extreme cfg)' if e else ''}" for (r, s, e) in pl["wide"][tier]) or "-"
        print(f"| {p} | {tier} | {fmt(pl['mc'][tier])} | {fmt(pl['emit'][tier])} | {walks} | {fmt(pl['scen'])} | {wide} | {hooks.get(p, '-') if tier == 'quick' else 'same, larger volumes'} |")
print("| C20 | both | MCProtoWire (wire-format laws) | - | - | - | - | descriptor extraction, ~38 TLC-generated vectors per message through the real decode / encode and the osmosis-std twin, type-URL probes, URL literals (c20check.py) |")
