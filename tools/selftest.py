#!/usr/bin/env python3
"""Demonstrates the binding between specification and recorded executions (development tooling, not a check):
a recorded trace of the real contract is accepted as is; each of a series of corruptions - one field of a post-state,
an emitted amount, a flipped outcome, a dropped line, two swapped lines, a wrong parent pointer - must produce findings."""
import json, os, random, shutil, sys
sys.path.insert(0, os.path.dirname(os.path.abspath(__file__)))
import mwcheck as m

def main():
    wd = os.path.join(m.WORK, "selftest")
    shutil.rmtree(wd, ignore_errors=True); os.makedirs(wd)
    binp = m.build(False)
    base = os.path.join(wd, "base.ndjson")
    m.mwh(binp, ["walk", base, 11, 3, 60, "chaos"])
    n, f = m.validate_trace(base, wd)
    assert not f, "the unmodified trace must be accepted"
    lines = [json.loads(l) for l in open(base)]
    rnd = random.Random(5)
    def pick(pred):
        c = [i for i, e in enumerate(lines) if pred(e)]
        return rnd.choice(c)
    results = []
    def run(name, mutate):
        ls = json.loads(json.dumps(lines))
        mutate(ls)
        p = os.path.join(wd, name + ".ndjson")
        with open(p, "w") as out:
            for i, e in enumerate(ls):
                out.write(json.dumps(e) + "\n")
        try:
            _, fs = m.validate_trace(p, wd)
            results.append((name, len(fs), sorted({x["atom"] for x in fs})[:4]))
        except m.ToolError as ex:
            results.append((name, -1, ["rejected by the validator: " + str(ex)[:80]]))
    i_stake = pick(lambda e: e["call"]["m"] == "liquid_stake" and e["res"]["ok"])
    run("post_total_plus_one", lambda ls: ls[i_stake]["post"]["c"].__setitem__("N", ls[i_stake]["post"]["c"]["N"] + 1))
    def amt(ls):
        for mm in ls[i_stake]["res"]["msgs"]:
            if mm["k"] == "tf_mint": mm["amt"] += 1
    run("emitted_mint_amount_plus_one", amt)
    i_ref = pick(lambda e: e["call"]["m"] in ("withdraw", "submit_batch") and not e["res"]["ok"])
    run("refused_call_reported_ok", lambda ls: ls[i_ref]["res"].__setitem__("ok", True))
    i_ok = pick(lambda e: e["call"]["m"] == "liquid_unstake" and e["res"]["ok"])
    def drop(ls):
        del ls[i_ok]
        for k, e in enumerate(ls):
            e["i"] = k + 1
    run("dropped_line_renumbered_parents_kept", drop)
    def swap(ls):
        a = pick(lambda e: e["call"]["m"] == "liquid_stake" and e["res"]["ok"])
        b = a + 1
        ls[a]["call"], ls[b]["call"] = ls[b]["call"], ls[a]["call"]
    run("two_calls_swapped", swap)
    run("wrong_parent_pointer", lambda ls: ls[i_stake].__setitem__("parent", max(1, ls[i_stake]["parent"] - 3)))
    i_or = pick(lambda e: any(mm["k"] == "oracle" for mm in e["res"]["msgs"]))
    def orc(ls):
        for mm in ls[i_or]["res"]["msgs"]:
            if mm["k"] == "oracle": mm["pur"] = mm["pur"] + "1"
    run("oracle_rate_digit_appended", orc)
    ok = True
    for name, nf, atoms in results:
        print(f"{name:42s} findings={nf:3d} {atoms}")
        ok &= nf != 0
    print("binding demonstrated" if ok else "SOME CORRUPTION WAS ACCEPTED")
    return 0 if ok else 1

if __name__ == "__main__":
    sys.exit(main())
