#!/usr/bin/env python3
"""Renders the table of DESIGN.md Appendix J from /verif/seeded/notes.json (what each change is, in which round it was
written, whether the check caught it BLIND, what was strengthened) and /verif/seeded/*/meta.json (what the latest
evaluation by tools/seed_eval.py found)."""
import json, os
ROOT = os.path.dirname(os.path.dirname(os.path.abspath(__file__)))
notes = json.load(open(os.path.join(ROOT, "seeded", "notes.json")))
rows, caught, blind = [], 0, {}
for i in sorted(notes, key=lambda k: (k[:3], int(k.split("-m")[1]))):
    n = notes[i]
    mp = os.path.join(ROOT, "seeded", i, "meta.json")
    m = json.load(open(mp)) if os.path.exists(mp) else {}
    det = ", ".join(m.get("detected_by", []))
    if det:
        caught += 1
    else:
        det = "**not detected**"
    if n.get("blind"):
        b = blind.setdefault(n["round"], [0, 0])
        b[1] += 1
        b[0] += n["blind"] == "caught"
    conf = "" if (m.get("confirmed") or n.get("confirmed_by_hand")) else " (NOT confirmed)"
    rows.append(f"| {i} | {n['round']} | {n['what']}{conf} | {det} | {n.get('remark', '')} |")
print("| change | round | what it is | caught by (`./check <P> quick`, exit 1 + VIOLATION) | strengthening / remark |")
print("| --- | --- | --- | --- | --- |")
print("\n".join(rows))
print()
print(f"{caught} of the {len(rows)} changes are caught by the check of the property they break. Blind results: "
      + "; ".join(f"round {r}: {b[0]} of {b[1]} caught by the machinery as it was" for r, b in sorted(blind.items())) + ".")
