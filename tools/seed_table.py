#!/usr/bin/env python3
"""Renders /verif/seeded/*/meta.json as the markdown table of DESIGN.md Appendix J."""
import json, os, glob
ROOT = os.path.dirname(os.path.dirname(os.path.abspath(__file__)))
rows = []
for f in sorted(glob.glob(os.path.join(ROOT, "seeded", "*", "meta.json"))):
    m = json.load(open(f))
    what = m.get("summary") or m.get("needs_to_manifest", "")[:160]
    det = ", ".join(m.get("detected_by", [])) or ("-" if m.get("confirmed") else "n/a")
    how = m.get("how_detected", "")
    rows.append(f"| {m['id']} | {m.get('breaks','')} | {'yes' if m.get('confirmed') else 'NO'} | {det} | {what} {how} |")
print("| change | breaks | confirmed (107 green, demo fails with / passes without) | caught by `./check <P> quick` | what it is / needs |")
print("| --- | --- | --- | --- | --- |")
print("\n".join(rows))
