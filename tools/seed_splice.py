#!/usr/bin/env python3
"""Development tooling: replaces the table of DESIGN.md Appendix J (from its header row to the "N of M changes are
caught" line) by the current output of tools/seed_table.py."""
import os, subprocess
ROOT = os.path.dirname(os.path.dirname(os.path.abspath(__file__)))
p = os.path.join(ROOT, "DESIGN.md")
L = open(p).read().split("\n")
a = next(i for i, l in enumerate(L) if l.startswith("| change | round |"))
b = next(i for i, l in enumerate(L) if i > a and " changes are caught by the check of the property they break" in l)
new = subprocess.run(["python3", os.path.join(ROOT, "tools", "seed_table.py")], stdout=subprocess.PIPE, text=True, check=True).stdout.rstrip("\n").split("\n")
open(p, "w").write("\n".join(L[:a] + new + L[b + 1:]))
print(f"replaced lines {a+1}..{b+1} by {len(new)} lines")
