#!/usr/bin/env python3
"""Generates the bounded configurations spec/mc/*.cfg of spec/MilkyWay.tla from one table, so that the
focus configurations differ only in the constants shown here. Re-run after editing; outputs are committed."""
import os
ROOT = os.path.dirname(os.path.dirname(os.path.abspath(__file__)))
OUT = os.path.join(ROOT, "spec", "mc")

BASE = dict(
    Users='{"u1"}', StakeAmts="{3}", UnstakeAmts="{2}", RewardAmts="{2}", FeeRate="50000",
    TreasuryAddr='""', OracleAddr='"oracle"', MinStake="2", BatchPeriod="2", Unbonding="2",
    RcvKinds='{"self", "native"}', Outcomes='{"ok"}', SubmitFails="{}", Returns='{"exact", "short"}',
    Principals='{"u1", "admin"}', AdminOps="TRUE", ResumeScales='{"same"}', StartHalted="FALSE",
    SamePrefix="FALSE", Extras='{"wrongsender"}', MaxTime="6", MaxBatches="2", MaxSeq="3", MaxN="6", MaxPk="3", EmitTests="FALSE",
)
INVS = "P_C01 P_C01b P_C01c P_C02 P_C03 P_C05 P_C06 P_C07 P_C11 P_C16 P_NonNeg"
PROPS = "A_C06 A_C04 A_C10"

CFGS = {
    # ---------------------------------------------------------------- quick tier
    # value flow without IBC faults: stake / unstake / submit / return (exact, short) / withdraw / rewards / fees
    "flow_q": dict(),
    "flow_treasury_q": dict(TreasuryAddr='"treasury"', OracleAddr='""', Returns='{"exact"}', Extras='{"wrongsender", "tspend"}'),
    # fee accounting: fees accrue without a treasury, the treasury is switched on / off, FeeWithdraw of 1 / all / all+1
    "fees_q": dict(Extras='{"toggle"}', UnstakeAmts="{}", RewardAmts="{2, 5}", RcvKinds='{"self"}', Returns="{}", MaxBatches="1",
                   MaxN="9", MaxSeq="4", MaxPk="4", MaxTime="0", Principals='{"admin", "u1"}'),
    # staked total without any LST (an admin correction): rewards are refused until somebody stakes, whose stake sweeps the
    # ownerless total into the fees
    "zerolst_q": dict(StartHalted="TRUE", ResumeScales='{"same", "zerolst"}', UnstakeAmts="{}", RewardAmts="{2}", RcvKinds='{"self"}', Returns="{}",
                      MaxBatches="1", MaxN="12", MaxSeq="3", MaxPk="3", MaxTime="0", Principals='{"admin"}', Extras="{}"),
    # a fee rate of exactly 100 % with a treasury: nothing is left to restake (the transfer of zero is refused by the chain)
    "fee100_q": dict(FeeRate="100000", TreasuryAddr='"treasury"', UnstakeAmts="{}", RewardAmts="{1, 2, 3}", RcvKinds='{"self"}', Returns="{}", MaxBatches="1",
                     MaxN="6", MaxSeq="3", MaxPk="3", MaxTime="0", AdminOps="FALSE", Extras="{}"),
    # the admin changes the batch period while the batch is open
    "period_q": dict(Extras='{"period"}', RewardAmts="{}", RcvKinds='{"self"}', Returns='{"exact"}', Principals='{"u1"}', MaxTime="7"),
    # the admin corrects the totals on resume (down / up): the rates posted are those of the NEW totals
    "resume_q": dict(ResumeScales='{"same", "down", "up", "rewards0"}', UnstakeAmts="{}", RewardAmts="{2}", RcvKinds='{"self"}', Returns="{}", MaxBatches="1",
                     MaxN="9", MaxSeq="3", MaxPk="3", MaxTime="0", Principals='{"admin"}', Extras='{"unoracle", "resumerunning"}'),
    # IBC faults WHILE the contract holds other money (a returned batch waiting to be withdrawn): an over-sized re-send is
    # then covered by somebody else's funds instead of being stopped by the bank
    "ibc_hold_q": dict(Outcomes='{"ok", "err"}', Returns='{"exact"}', UnstakeAmts="{3}", RewardAmts="{}", RcvKinds='{"self"}', MaxBatches="2", MaxN="6",
                       MaxSeq="3", MaxPk="2", MaxTime="5", Principals='{"admin"}', Extras="{}"),
    # a redemption rate BELOW one (the admin corrected the staked total downwards): unbond amounts that round to zero or, with
    # the wrong rounding, eat the whole staked total while LST is still outstanding
    "downrate_q": dict(Users='{"u1", "u2"}', ResumeScales='{"same", "down"}', UnstakeAmts="{1, 2}", RewardAmts="{}", RcvKinds='{"self"}', Returns="{}", MaxBatches="2",
                       MaxN="6", MaxSeq="2", MaxPk="2", MaxTime="3", Principals='{"admin"}', Extras="{}"),
    # the operator returns MORE than expected (the surplus belongs to the requesters of that batch)
    "long_q": dict(Returns='{"exact", "long"}', RewardAmts="{}", RcvKinds='{"self"}', Principals='{"u1"}', AdminOps="FALSE", MaxN="7", Extras="{}"),
    # three batches: one account with open requests in two finished batches, withdrawing in either order
    "batches3_q": dict(StakeAmts="{3}", UnstakeAmts="{1}", RewardAmts="{}", RcvKinds='{"self"}', Returns='{"exact"}', MaxBatches="3", MaxN="3", MaxSeq="2",
                       MaxPk="2", MaxTime="9", Principals='{"u1"}', AdminOps="FALSE", Extras="{}"),
    # rewards whose restaking transfer the chain refuses at submission
    "feesfail_q": dict(SubmitFails="{0}", UnstakeAmts="{}", RewardAmts="{2, 5}", RcvKinds='{"self"}', Returns="{}", MaxBatches="1",
                       MaxN="9", MaxSeq="4", MaxPk="4", MaxTime="0", Principals='{"admin"}', AdminOps="FALSE", Extras="{}"),
    # forced recovery of packets that are still in flight, then their late callbacks
    "ibc_force_q": dict(Extras='{"forceinflight"}', Outcomes='{"ok", "err", "timeout"}', Returns="{}", UnstakeAmts="{}", RcvKinds='{"self", "native"}',
                        RewardAmts="{}", MaxBatches="1", MaxN="6", MaxSeq="4", MaxPk="3", MaxTime="0", Principals='{"admin", "u1", "mon1"}'),
    # a fee rate above 100 %: every reward must be refused (fee exceeds the reward)
    "fee150_q": dict(FeeRate="150000", UnstakeAmts="{}", RewardAmts="{1, 2, 3}", RcvKinds='{"self"}', Returns="{}", MaxBatches="1",
                     MaxN="6", MaxSeq="3", MaxPk="3", MaxTime="0", AdminOps="FALSE", Extras="{}"),
    # both chains share one bech32 prefix: the transfer_to_native_chain flag (none / false / true) decides the route
    "same_q": dict(SamePrefix="TRUE", Outcomes='{"ok", "err"}', Returns="{}", RewardAmts="{2}", MaxBatches="1", MaxN="6", MaxSeq="4", MaxPk="3",
                   MaxTime="0", AdminOps="FALSE", Extras="{}"),
    "same_t": dict(SamePrefix="TRUE", Outcomes='{"ok", "err"}', Returns='{"exact"}', RewardAmts="{2}", MaxBatches="2", MaxN="6", MaxSeq="4", MaxPk="3",
                   MaxTime="3", AdminOps="FALSE", Extras="{}"),
    # a 32-byte sender (contract / hook account): refused without mint_to, served with one
    "sender_q": dict(Users='{"c1"}', Extras='{"mintto"}', UnstakeAmts="{}", RewardAmts="{2}", Returns="{}", MaxBatches="1", MaxN="9", MaxSeq="4", MaxPk="4",
                     MaxTime="0", AdminOps="FALSE"),
    # IBC faults: every outcome for every packet, refused submissions, permissionless and forced recovery
    # limits: stakes below / at / above the minimum, mints of zero (stake 1 at a rate above 1), expected_mint_amount met / missed by one,
    # wrong payments, unknown batch ids, malformed recovery receiver
    "limits_q": dict(StakeAmts="{1, 2, 3}", MinStake="2", UnstakeAmts="{2}", RewardAmts="{5}", RcvKinds='{"self"}', Returns='{"exact"}',
                     Extras='{"slippage", "badinputs"}', Outcomes='{"ok", "err"}', MaxN="9", MaxSeq="3", MaxPk="2", MaxBatches="2", MaxTime="3", AdminOps="FALSE",
                     Principals='{"u1"}'),
    "limits1_q": dict(StakeAmts="{1, 3}", MinStake="1", UnstakeAmts="{}", RewardAmts="{5}", RcvKinds='{"self"}', Returns="{}",
                      Extras='{"slippage"}', MaxN="12", MaxSeq="3", MaxPk="3", MaxBatches="1", MaxTime="0", AdminOps="FALSE", Principals='{"u1"}'),
    # two requesters and a return of ONE base unit: payouts of zero, repeated withdrawals
    "dust_q": dict(Users='{"u1", "u2"}', UnstakeAmts="{2}", RewardAmts="{}", RcvKinds='{"self"}', Returns='{"one"}', MaxN="6", MaxSeq="2", MaxPk="2",
                   MaxBatches="2", AdminOps="FALSE", Extras="{}", Principals='{"u1"}', MaxTime="5"),
    "ibc_q": dict(Extras='{"stray"}', Outcomes='{"ok", "err", "timeout"}', SubmitFails="{0}", Returns='{"exact"}', UnstakeAmts="{3}", RcvKinds='{"self", "native", "staker"}',
                  RewardAmts="{}", MaxBatches="1", MaxN="6", MaxSeq="4", MaxPk="3", MaxTime="0"),
    # breaker / authorisation: starts halted, every principal tries everything
    "gate_q": dict(Extras='{"wrongsender", "matrix", "direct", "upmon", "demonitor"}', StartHalted="TRUE",
                   Principals='{"u1", "admin", "mon1", "admin2", "contract", "treasury", "hook|channel-1|staker", "hook|channel-1|collector"}', Returns='{"exact"}',
                   MaxN="6", MaxSeq="2", MaxBatches="2", MaxPk="2", TreasuryAddr='"treasury"', RcvKinds='{"self"}', MaxTime="5",
                   ResumeScales='{"same", "zerolst", "rewards0"}'),
    # the same with one stake at most: used where the gate is not the property's own subject
    "gates_q": dict(Extras='{"wrongsender", "matrix", "direct"}', StartHalted="TRUE",
                    Principals='{"u1", "admin", "mon1", "admin2", "contract", "hook|channel-1|staker"}', Returns='{"exact"}',
                    MaxN="3", MaxSeq="2", MaxBatches="2", MaxPk="2", TreasuryAddr='"treasury"', RcvKinds='{"self"}', MaxTime="5"),
    # ---------------------------------------------------------------- thorough tier: focused extensions, one dimension each
    "flow_long_t": dict(Returns='{"exact", "long"}', MaxN="8"),
    "flow_resume_t": dict(ResumeScales='{"same", "down", "up"}', Returns='{"exact"}', RcvKinds='{"self"}', RewardAmts="{}"),
    "flow_amounts_t": dict(StakeAmts="{3, 5}", UnstakeAmts="{2, 3}", MaxN="8", Returns='{"exact", "short"}'),
    "flow_extras_t": dict(Extras='{"wrongsender", "slippage", "mintto", "direct"}', Principals='{"u1", "admin", "mon1"}'),
    "flow_time_t": dict(MaxTime="9", MaxBatches="3", BatchPeriod="2", Unbonding="3", Returns='{"exact"}', RcvKinds='{"self"}'),
    "flow_t": dict(Users='{"u1", "u2"}', MaxN="6", MaxSeq="3", Returns='{"exact", "short"}', RcvKinds='{"self"}', Principals='{"u1", "admin"}'),
    # deep, model-checking only (tens of millions of transitions)
    "flow_deep_t": dict(Users='{"u1", "u2"}', StakeAmts="{3, 5}", UnstakeAmts="{2}", MaxN="8", MaxSeq="4", MaxPk="3", Returns='{"exact", "short"}',
                        RcvKinds='{"self", "native"}', Principals='{"u1", "admin"}', MaxTime="6", MaxBatches="2"),
    "ibc_deep_t": dict(Extras='{"stray", "wrongsender"}', Outcomes='{"ok", "err", "timeout"}', SubmitFails="{0, 1}", Returns='{"exact"}', Users='{"u1", "u2"}',
                       UnstakeAmts="{3}", RewardAmts="{2}", MaxBatches="1", MaxN="6", MaxSeq="5", MaxPk="3", MaxTime="0", Principals='{"u1", "admin", "mon1"}',
                       RcvKinds='{"self", "native", "staker"}'),
    "flow_treasury_t": dict(Users='{"u1", "u2"}', TreasuryAddr='"treasury"', OracleAddr='""', MaxN="6", MaxSeq="3", Returns='{"exact"}', RcvKinds='{"self"}'),
    "fees_t": dict(Extras='{"toggle"}', UnstakeAmts="{}", RewardAmts="{2, 5, 7}", RcvKinds='{"self"}', Returns="{}", MaxBatches="1",
                   MaxN="12", MaxSeq="5", MaxPk="5", MaxTime="0", Principals='{"admin", "u1", "mon1"}'),
    "ibc_t": dict(Extras='{"stray", "wrongsender"}', Outcomes='{"ok", "err", "timeout"}', SubmitFails="{0, 1}", Returns='{"exact"}',
                  UnstakeAmts="{3}", RewardAmts="{2}", MaxBatches="1", MaxN="6", MaxSeq="5", MaxPk="3", MaxTime="0", Principals='{"u1", "admin", "mon1"}'),
    "ibc2_t": dict(Extras='{"stray"}', Outcomes='{"ok", "err", "timeout"}', SubmitFails="{0}", Returns='{"exact"}', Users='{"u1", "u2"}',
                   UnstakeAmts="{3}", RewardAmts="{}", MaxBatches="1", MaxN="6", MaxSeq="4", MaxPk="3", MaxTime="0"),
    "gate_t": dict(Extras='{"wrongsender", "matrix", "direct", "stray"}', StartHalted="TRUE",
                   Principals='{"u1", "u2", "admin", "mon1", "mon2", "admin2", "treasury", "contract", "hook|channel-1|staker", "hook|channel-1|collector"}',
                   Returns='{"exact"}', MaxN="6", MaxSeq="3", MaxBatches="2", MaxPk="2", TreasuryAddr='"treasury"', RcvKinds='{"self", "native"}', MaxTime="5",
                   ResumeScales='{"same", "down", "up"}'),
    # the admin-only messages by EVERY principal including the admin (state-changing): small value flow
    "gateadmin_t": dict(Extras='{"matrixadmin"}', StartHalted="TRUE", Principals='{"u1", "admin", "mon1", "admin2", "contract"}', UnstakeAmts="{}", RewardAmts="{}",
                        Returns="{}", MaxN="3", MaxSeq="2", MaxBatches="1", MaxPk="1", TreasuryAddr='"treasury"', RcvKinds='{"self"}', MaxTime="0"),
}

def write(name, over, emit):
    c = dict(BASE); c.update(over)
    if emit:
        c["EmitTests"] = "TRUE"
    lines = ["\\* generated by tools/gen_cfgs.py - do not edit", "SPECIFICATION Spec", "VIEW View", "CONSTANTS"]
    lines += [f"  {k} = {v}" for k, v in c.items()]
    lines += ["CONSTRAINT Bounded", "INVARIANTS " + INVS, "PROPERTIES " + PROPS, "CHECK_DEADLOCK FALSE"]
    fn = os.path.join(OUT, f"MC_{name}{'_emit' if emit else ''}.cfg")
    open(fn, "w").write("\n".join(lines) + "\n")

os.makedirs(OUT, exist_ok=True)
for n, o in CFGS.items():
    write(n, o, False)
    write(n, o, True)
# reachability witnesses (vacuity guards): each of these invariants is EXPECTED to be violated
for n, inv in [("HonestOutstanding", "Reach_HonestOutstanding"), ("Received", "Reach_Received"), ("Refundable", "Reach_Refundable")]:
    c = dict(BASE); c.update(CFGS["ibc_q"] if n == "Refundable" else CFGS["flow_q"])
    lines = ["\\* generated by tools/gen_cfgs.py - vacuity guard, expected to be violated", "SPECIFICATION Spec", "VIEW View", "CONSTANTS"]
    lines += [f"  {k} = {v}" for k, v in c.items()]
    lines += ["CONSTRAINT Bounded", "INVARIANTS " + inv, "CHECK_DEADLOCK FALSE"]
    open(os.path.join(OUT, f"REACH_{n}.cfg"), "w").write("\n".join(lines) + "\n")
print("generated", len(os.listdir(OUT)), "files")
