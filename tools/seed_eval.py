#!/usr/bin/env python3
"""seed_eval.py <mutant-dir> <property> [more properties...]
Development tooling (not a registered check): confirms a seeded change (patch alone keeps the 107 tests green, the
demonstration fails with it and passes without it) in a scratch worktree, then runs ./check <property> quick against
a scratch copy of the repository with the change applied (harness copy whose path dependencies point at the scratch
worktree), and files everything under /verif/seeded/<id>/ ."""
import json, os, re, shutil, subprocess, sys, time
ROOT = os.path.dirname(os.path.dirname(os.path.abspath(__file__)))
# several evaluations may run side by side, each with its own scratch worktree / harness copy / work directory
INST = os.environ.get("SEED_INSTANCE", "")
WT = "/tmp/seed/evalwt" + INST
EH = "/tmp/seed/evalh" + INST
EW = "/tmp/seed/evalwork" + INST


def sh(cmd, cwd=None, env=None, timeout=3600):
    e = dict(os.environ); e.update(env or {}); e["CARGO_NET_OFFLINE"] = "true"
    p = subprocess.run(cmd, cwd=cwd, env=e, shell=isinstance(cmd, str), stdout=subprocess.PIPE, stderr=subprocess.STDOUT, text=True, timeout=timeout)
    return p.returncode, p.stdout


def tests(cwd):
    rc, out = sh("cargo test --workspace --no-fail-fast --offline", cwd=cwd, env={"CARGO_TARGET_DIR": WT + "/target"})
    p = f = 0
    for m in re.finditer(r"^test result: \w+\. (\d+) passed; (\d+) failed", out, re.M):
        p += int(m.group(1)); f += int(m.group(2))
    failed = re.findall(r"^test (\S+) \.\.\. FAILED", out, re.M)
    return p, f, failed, ("error: could not compile" in out or "error[" in out)


def main():
    d = sys.argv[1].rstrip("/")
    props = sys.argv[2:]
    mid = os.path.basename(d)
    head = subprocess.run(["git", "-C", "/repo", "rev-parse", "HEAD"], stdout=subprocess.PIPE, text=True).stdout.strip()
    if not os.path.isdir(WT):
        sh(["git", "-C", "/repo", "worktree", "add", "-q", "--detach", WT, head])
    sh(f"git reset -q --hard && git checkout -q --detach {head} && git reset -q --hard && git clean -fdq -e target", cwd=WT)
    meta = {"id": mid, "breaks": props[0] if props else "?", "repo_head": head, "ran": []}
    # 1. patch alone: existing suite green
    rc, out = sh(["git", "apply", os.path.join(d, "patch.diff")], cwd=WT)
    if rc != 0:
        # the mutant was written against an older HEAD; try a 3-way apply
        rc, out = sh(["git", "apply", "--3way", os.path.join(d, "patch.diff")], cwd=WT)
        if rc != 0:
            meta["error"] = "patch does not apply on current HEAD: " + out[-400:]
            sh("git reset -q --hard && git clean -fdq -e target", cwd=WT)
            return finish(d, mid, meta)
    p1, f1, failed1, cerr = tests(WT)
    meta["patch_only"] = {"passed": p1, "failed": f1, "compile_error": cerr}
    rc, out = sh("cargo build -p staking --features miniwasm --offline", cwd=WT, env={"CARGO_TARGET_DIR": WT + "/target"})
    meta["miniwasm_build_ok"] = rc == 0
    # 2. run the checks against the scratch copy with the change applied
    if not os.path.isdir(EH):
        shutil.copytree(os.path.join(ROOT, "harness"), EH, ignore=shutil.ignore_patterns("target", "target-mw"))
    for fn in ("Cargo.toml",):
        s = open(os.path.join(ROOT, "harness", fn)).read().replace('"/repo/', f'"{WT}/')
        open(os.path.join(EH, fn), "w").write(s)
    sh(f"rsync -a --delete {ROOT}/harness/src/ {EH}/src/")
    results = {}
    for pr in props:
        t0 = time.time()
        rc, out = sh(["./check", pr, "quick"], cwd=ROOT, env={"MW_HARNESS": EH, "MW_WORK": EW, "MW_EVID": EW + "/evidence", "MW_REPO": WT}, timeout=3000)
        viol = [l for l in out.splitlines() if l.startswith("VIOLATION")]
        finds = [l for l in out.splitlines() if l.startswith("finding:") or l.startswith("replay finding")][:3]
        results[pr] = {"exit": rc, "violation_lines": viol[:2], "first_findings": finds, "wall_s": round(time.time() - t0, 1)}
        meta["ran"].append(f"MW_HARNESS=<scratch harness -> scratch worktree with patch> ./check {pr} quick  -> exit {rc}")
    meta["checks"] = results
    meta["detected_by"] = [p for p, r in results.items() if r["exit"] == 1]
    # 3. demonstration: fails with the patch, passes without
    rc, out = sh(["git", "apply", os.path.join(d, "demo.diff")], cwd=WT)
    if rc == 0:
        p2, f2, failed2, cerr2 = tests(WT)
        meta["patch_plus_demo"] = {"passed": p2, "failed": f2, "failed_tests": failed2[:6], "compile_error": cerr2}
        sh(["git", "apply", "-R", os.path.join(d, "patch.diff")], cwd=WT)
        p3, f3, failed3, cerr3 = tests(WT)
        meta["demo_only"] = {"passed": p3, "failed": f3, "compile_error": cerr3}
        meta["confirmed"] = (f1 == 0 and p1 >= 107 and not cerr and f2 > 0 and f3 == 0 and p3 > 107 and meta["miniwasm_build_ok"])
    else:
        meta["error"] = "demo.diff does not apply: " + out[-300:]
        meta["confirmed"] = False
    sh("git reset -q --hard && git clean -fdq -e target", cwd=WT)
    return finish(d, mid, meta)


def finish(d, mid, meta):
    out = os.path.join(ROOT, "seeded", mid)
    os.makedirs(out, exist_ok=True)
    for fn in ("patch.diff", "demo.diff", "README.md"):
        if os.path.exists(os.path.join(d, fn)):
            shutil.copy(os.path.join(d, fn), os.path.join(out, fn))
    rd = os.path.join(d, "README.md")
    if os.path.exists(rd):
        txt = open(rd).read()
        meta["needs_to_manifest"] = " ".join(txt.split())[:700]
    json.dump(meta, open(os.path.join(out, "meta.json"), "w"), indent=1)
    print(json.dumps({k: meta.get(k) for k in ("id", "confirmed", "detected_by", "patch_only", "patch_plus_demo", "demo_only", "error")}))


if __name__ == "__main__":
    main()
