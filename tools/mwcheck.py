#!/usr/bin/env python3
"""./check <property> <quick|thorough>   |   ./check <property> --replay <file>

Decides one property of /verif/properties.jsonl on /repo's current working tree:
  1. rebuilds the harness (a chain simulator around the REAL entry points) from /repo,
  2. model-checks the property's bounded configurations of the TLA+ specification with TLC,
  3. runs the property's drivers against the real code and validates every recorded transaction
     against the specification (spec/Trace.tla re-derives each step with the model's own operator
     and evaluates every invariant on every real state),
  4. replays TLC-generated behaviours of the model through the real code and validates them likewise,
  5. writes evidence/<id>.json.
Exit 0: held on everything explored. Exit 1 + "VIOLATION property=<id> replay=<path>": a real execution
contradicts the property. Exit 2: tool error / timeout / vacuity.
"""
import json, os, re, shutil, subprocess, sys, time

ROOT = os.path.dirname(os.path.dirname(os.path.abspath(__file__)))
SPEC = os.path.join(ROOT, "spec")
HARNESS = os.path.join(ROOT, "harness")
WORK = os.path.join(ROOT, "work")
EVID = os.path.join(ROOT, "evidence")
REPLAYS = os.path.join(EVID, "replays")
JAVA_OPTS = "-Xss1g -Dtlc2.tool.queue.IStateQueue=StateDeque"


class ToolError(Exception):
    pass


def log(*a):
    print(*a, file=sys.stderr, flush=True)


def sh(cmd, cwd=None, env=None, timeout=None):
    e = dict(os.environ)
    e["CARGO_NET_OFFLINE"] = "true"
    if env:
        e.update(env)
    try:
        p = subprocess.run(cmd, cwd=cwd, env=e, timeout=timeout, stdout=subprocess.PIPE, stderr=subprocess.STDOUT, text=True)
    except subprocess.TimeoutExpired as ex:
        raise ToolError(f"timeout after {timeout}s: {' '.join(cmd)}\n{(ex.stdout or '')[-2000:]}")
    return p.returncode, p.stdout


_built = {}


def build(miniwasm=False):
    """cargo decides what is stale; always invoked so that edits under /repo are picked up"""
    if miniwasm in _built:
        return _built[miniwasm]
    tdir = "target-mw" if miniwasm else "target"
    cmd = ["cargo", "build", "--release", "--offline", "--target-dir", tdir]
    if miniwasm:
        cmd += ["--features", "miniwasm"]
    t0 = time.time()
    rc, out = sh(cmd, cwd=HARNESS, timeout=1500)
    if rc != 0:
        raise ToolError("harness build failed (does /repo still compile?)\n" + out[-4000:])
    log(f"[build] {'miniwasm' if miniwasm else 'osmosis'} harness ok in {time.time()-t0:.1f}s")
    _built[miniwasm] = os.path.join(HARNESS, tdir, "release", "mwh")
    return _built[miniwasm]


def mwh(binpath, args, timeout=900):
    rc, out = sh([binpath] + [str(a) for a in args], timeout=timeout)
    if rc != 0:
        raise ToolError(f"harness {' '.join(map(str,args))} failed rc={rc}\n{out[-3000:]}")
    return out


def tlc(module, cfg, workdir, env=None, workers=1, timeout=600, extra=None, xmx="4g"):
    md = os.path.join(workdir, "md-" + os.path.basename(cfg))
    shutil.rmtree(md, ignore_errors=True)
    e = {"JAVA_TOOL_OPTIONS": f"{JAVA_OPTS} -Xmx{xmx}"}
    if env:
        e.update(env)
    cmd = ["tlc", "-workers", str(workers), "-metadir", md, "-cleanup", "-noGenerateSpecTE", "-config", cfg]
    if extra:
        cmd += extra
    cmd += [module]
    t0 = time.time()
    rc, out = sh(cmd, cwd=workdir, env=e, timeout=timeout)
    shutil.rmtree(md, ignore_errors=True)
    return rc, out, time.time() - t0


FIND_RE = re.compile(r'^"FINDING (.*)"$')


def unq(s):
    return json.loads('"' + s + '"')


def validate_trace(trace, workdir):
    """TLC over spec/Trace.tla; returns (nlines, findings[list of dict with i, l, kind, m, atom, props])"""
    n = sum(1 for _ in open(trace))
    if n == 0:
        raise ToolError("empty trace " + trace)
    rc, out, wall = tlc(os.path.join(SPEC, "Trace.tla"), os.path.join(SPEC, "Trace.cfg"), workdir,
                        env={"TRACE": trace}, workers=1, timeout=1800, xmx="8g")
    findings = []
    consumed = False
    for line in out.splitlines():
        m = FIND_RE.match(line.strip())
        if m:
            rec = json.loads(unq(m.group(1)))
            for f in rec["fs"]:
                f["i"] = rec["i"]
                findings.append(f)
        if "TRACE-CONSUMED " + str(n) in line:
            consumed = True
    if not consumed or "Model checking completed. No error has been found." not in out:
        raise ToolError(f"trace validation did not consume {trace} ({n} lines)\n" + out[-3000:])
    log(f"[trace] {os.path.basename(trace)}: {n} lines validated in {wall:.1f}s, {len(findings)} findings (all properties)")
    return n, findings


def load_known():
    p = os.path.join(ROOT, "known_findings.json")
    if not os.path.exists(p):
        return []
    return [k for k in json.load(open(p)).get("findings", []) if k.get("status") == "known"]


def is_known(prop, f, known):
    for k in known:
        if k["property"] != prop:
            continue
        if all(str(f.get(kk)) == str(vv) for kk, vv in k["match"].items()):
            return k
    return None


def write_replay(prop, trace, finding, tag):
    os.makedirs(REPLAYS, exist_ok=True)
    lines = open(trace).read().splitlines()
    i = finding["i"]
    # the run containing line i: from its instantiate line
    start = i
    while start > 1 and json.loads(lines[start - 1])["call"]["m"] != "instantiate":
        start -= 1
    path = os.path.join(REPLAYS, f"{prop}-{tag}-line{i}.ndjson")
    with open(path, "w") as f:
        for ln in lines[start - 1:i]:
            f.write(ln + "\n")
        f.write(json.dumps({"finding": finding, "property": prop}) + "\n")
    return path


def replay(prop, path):
    binp = build(False)
    wd = os.path.join(WORK, f"{prop}-replay")
    shutil.rmtree(wd, ignore_errors=True)
    os.makedirs(wd)
    src = os.path.join(wd, "in.ndjson")
    with open(src, "w") as f:
        for ln in open(path):
            if ln.strip() and '"finding"' not in ln[:12]:
                f.write(ln)
    out = os.path.join(wd, "out.ndjson")
    first = json.loads(open(src).readline())
    if first.get("build") == "miniwasm":
        binp = build(True)
    mwh(binp, ["exec", src, out])
    n, findings = validate_trace(out, wd)
    mine = [f for f in findings if prop in f.get("props", [])]
    for f in mine:
        print("replay finding:", json.dumps(f))
    if mine:
        print(f"VIOLATION property={prop} replay={path}")
        return 1
    print(f"replay of {path}: property {prop} holds on the current tree")
    return 0


def sample_lines(trace, k=2):
    out = []
    with open(trace) as f:
        for i, ln in enumerate(f):
            e = json.loads(ln)
            if e["call"]["m"] not in ("instantiate", "faucet", "time") and e["res"]["ok"]:
                out.append({"call": e["call"], "ok": e["res"]["ok"], "msgs": e["res"]["msgs"][:4]})
                if len(out) >= k:
                    break
    return out
