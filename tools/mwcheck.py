#!/usr/bin/env python3
"""./check <property> <quick|thorough>   |   ./check <property> --replay <file>

Decides one property of /verif/properties.jsonl on /repo's current working tree:
  1. rebuilds the harness (a chain simulator around the REAL entry points) from /repo,
  2. model-checks the property's bounded configurations of the TLA+ specification with TLC,
  3. runs the property's drivers against the real code and validates every recorded transaction
     against the specification (spec/Trace.tla re-derives each step with the model's own operator
     and evaluates every invariant on every real state),
  4. replays TLC-generated behaviours of the model through the real code and validates them likewise,
  5. writes evidence/<id>.json.
Exit 0: held on everything explored. Exit 1 + "VIOLATION property=<id> replay=<path>": a real execution
contradicts the property. Exit 2: tool error / timeout / vacuity.
"""
import json, os, re, shutil, subprocess, sys, time

ROOT = os.path.dirname(os.path.dirname(os.path.abspath(__file__)))
SPEC = os.path.join(ROOT, "spec")
# The three overrides exist for development only (evaluating seeded changes in a scratch copy of the
# repository without touching /repo); the registered commands never set them.
HARNESS = os.environ.get("MW_HARNESS", os.path.join(ROOT, "harness"))
WORK = os.environ.get("MW_WORK", os.path.join(ROOT, "work"))
EVID = os.environ.get("MW_EVID", os.path.join(ROOT, "evidence"))
REPLAYS = os.path.join(EVID, "replays")
JAVA_OPTS = "-Xss1g -Dtlc2.tool.queue.IStateQueue=StateDeque"


class ToolError(Exception):
    pass


def log(*a):
    print(*a, file=sys.stderr, flush=True)


def sh(cmd, cwd=None, env=None, timeout=None):
    e = dict(os.environ)
    e["CARGO_NET_OFFLINE"] = "true"
    if env:
        e.update(env)
    try:
        p = subprocess.run(cmd, cwd=cwd, env=e, timeout=timeout, stdout=subprocess.PIPE, stderr=subprocess.STDOUT, text=True)
    except subprocess.TimeoutExpired as ex:
        raise ToolError(f"timeout after {timeout}s: {' '.join(cmd)}\n{(ex.stdout or '')[-2000:]}")
    return p.returncode, p.stdout


_built = {}


def build(miniwasm=False):
    """cargo decides what is stale; always invoked so that edits under /repo are picked up"""
    if miniwasm in _built:
        return _built[miniwasm]
    tdir = "target-mw" if miniwasm else "target"
    cmd = ["cargo", "build", "--release", "--offline", "--target-dir", tdir]
    if miniwasm:
        cmd += ["--features", "miniwasm"]
    t0 = time.time()
    rc, out = sh(cmd, cwd=HARNESS, timeout=1500)
    if rc != 0:
        raise ToolError("harness build failed (does /repo still compile?)\n" + out[-4000:])
    log(f"[build] {'miniwasm' if miniwasm else 'osmosis'} harness ok in {time.time()-t0:.1f}s")
    _built[miniwasm] = os.path.join(HARNESS, tdir, "release", "mwh")
    return _built[miniwasm]


def mwh(binpath, args, timeout=900):
    rc, out = sh([binpath] + [str(a) for a in args], timeout=timeout)
    if rc != 0:
        raise ToolError(f"harness {' '.join(map(str,args))} failed rc={rc}\n{out[-3000:]}")
    return out


def denull_file(path):
    """The Json module of the CommunityModules cannot deserialize JSON null: a record of the code under test that carries
    one (a field a changed contract no longer produces) must not abort the validation - it becomes the string "<null>"."""
    try:
        if b"null" not in open(path, "rb").read():
            return
    except OSError:
        return
    def fix(v):
        if v is None:
            return "<null>"
        if isinstance(v, dict):
            return {k: fix(x) for k, x in v.items()}
        if isinstance(v, list):
            return [fix(x) for x in v]
        return v
    lines = [json.dumps(fix(json.loads(l))) for l in open(path) if l.strip()]
    with open(path, "w") as f:
        f.write("\n".join(lines) + "\n")


def tlc(module, cfg, workdir, env=None, workers=1, timeout=600, extra=None, xmx="4g"):
    for k in ("TRACE", "TRACE_A", "TRACE_B"):
        if env and k in env:
            denull_file(env[k])
    md = os.path.join(workdir, "md-" + os.path.basename(cfg))
    shutil.rmtree(md, ignore_errors=True)
    e = {"JAVA_TOOL_OPTIONS": f"{JAVA_OPTS} -Xmx{xmx}"}
    if env:
        e.update(env)
    cmd = ["tlc", "-workers", str(workers), "-metadir", md, "-cleanup", "-noGenerateSpecTE", "-config", cfg]
    if extra:
        cmd += extra
    cmd += [module]
    t0 = time.time()
    rc, out = sh(cmd, cwd=workdir, env=e, timeout=timeout)
    shutil.rmtree(md, ignore_errors=True)
    return rc, out, time.time() - t0


FIND_RE = re.compile(r'^"FINDING (.*)"$')


def unq(s):
    return json.loads('"' + s + '"')


def validate_trace(trace, workdir, spec="Trace"):
    """TLC over spec/Trace.tla (or WideTrace.tla for reduced wide-range lines); returns
    (nlines, findings[list of dict with i, l, kind, m, atom, props])"""
    n = sum(1 for _ in open(trace))
    if n == 0:
        raise ToolError("empty trace " + trace)
    if spec == "Trace" and '"callj"' in open(trace).readline():
        spec = "WideTrace"
    rc, out, wall = tlc(os.path.join(SPEC, spec + ".tla"), os.path.join(SPEC, spec + ".cfg"), workdir,
                        env={"TRACE": trace}, workers=1, timeout=1800, xmx="8g")
    findings = []
    consumed = False
    for line in out.splitlines():
        m = FIND_RE.match(line.strip())
        if m:
            rec = json.loads(unq(m.group(1)))
            for f in rec["fs"]:
                f["i"] = rec["i"]
                findings.append(f)
        if "TRACE-CONSUMED " + str(n) in line:
            consumed = True
    if not consumed or "Model checking completed. No error has been found." not in out:
        raise ToolError(f"trace validation did not consume {trace} ({n} lines)\n" + out[-3000:])
    log(f"[trace] {os.path.basename(trace)}: {n} lines validated in {wall:.1f}s, {len(findings)} findings (all properties)")
    return n, findings


def load_known():
    p = os.path.join(ROOT, "known_findings.json")
    if not os.path.exists(p):
        return []
    return [k for k in json.load(open(p)).get("findings", []) if k.get("status") == "known"]


def is_known(prop, f, known):
    for k in known:
        if k["property"] != prop:
            continue
        ok = True
        for kk, vv in k["match"].items():
            if kk.endswith("~"):
                ok = ok and all(part in str(f.get(kk[:-1])) for part in (vv if isinstance(vv, list) else [vv]))
            else:
                ok = ok and str(f.get(kk)) == str(vv)
        if ok:
            return k
    return None


def write_replay(prop, trace, finding, tag):
    """the chain of ancestor lines (parent pointers) from the run's instantiate line to the offending line"""
    os.makedirs(REPLAYS, exist_ok=True)
    lines = open(trace).read().splitlines()
    i = finding["i"]
    chain = []
    k = i
    while k > 0:
        e = json.loads(lines[k - 1])
        chain.append(lines[k - 1])
        k = e["parent"]
        if k == 0 and (json.loads(e["callj"]) if "callj" in e else e["call"])["m"] != "instantiate":
            raise ToolError("replay chain does not start at an instantiate line")
    chain.reverse()
    path = os.path.join(REPLAYS, f"{prop}-{tag}-line{i}.ndjson")
    with open(path, "w") as f:
        for ln in chain:
            f.write(ln + "\n")
        f.write(json.dumps({"finding": finding, "property": prop}) + "\n")
    return path


def replay(prop, path):
    binp = build(False)
    wd = os.path.join(WORK, f"{prop}-replay")
    shutil.rmtree(wd, ignore_errors=True)
    os.makedirs(wd)
    if path.endswith(".cfgmsgs"):
        out, n, fs, wall = run_cfg(binp, path, wd)
        recs = [json.loads(l) for l in open(out)]
        fs = [f for f in fs if 0 < f["l"] <= len(recs) and recs[f["l"] - 1].get("src", 0) > 0]   # the fixed validator matrix is appended to every run
        for f in fs:
            print("replay finding:", json.dumps(f)[:400])
        if fs:
            print(f"VIOLATION property={prop} replay={path}")
            return 1
        print(f"replay of {path}: property {prop} holds on the current tree")
        return 0
    base = os.path.basename(path)
    if "-hookauth-" in base or "-hookvec-" in base:
        # the derivation / authentication sweeps are deterministic functions of (tier, seed): re-run them on the current tree
        parts = base.split("-")
        tier, seed = parts[1], parts[2]
        if "-hookauth-" in base:
            vec = os.path.join(wd, "hookauth.ndjson")
            mwh(binp, ["hookauth", vec])
            n, fs, wall = small_trace_check("HookAuthTrace", vec, wd)
        else:
            vec = os.path.join(wd, "hookvec.ndjson")
            mwh(binp, ["hookvec", seed, 400 if tier == "quick" else 6000, vec])
            n, fs, wall = small_trace_check("HookTrace", vec, wd)
        for f in fs[:8]:
            print("replay finding:", json.dumps(f)[:400])
        if fs:
            print(f"VIOLATION property={prop} replay={path}")
            return 1
        print(f"replay of {path}: property {prop} holds on the current tree")
        return 0
    src = os.path.join(wd, "in.ndjson")
    with open(src, "w") as f:
        for ln in open(path):
            if ln.strip() and '"finding"' not in ln[:12]:
                f.write(ln)
    out = os.path.join(wd, "out.ndjson")
    first = json.loads(open(src).readline())
    if first.get("build") == "miniwasm":
        binp = build(True)
    mwh(binp, ["exec", src, out])
    n, findings = validate_trace(out, wd)
    mine = [f for f in findings if prop in f.get("props", [])]
    for f in mine:
        print("replay finding:", json.dumps(f))
    if mine:
        print(f"VIOLATION property={prop} replay={path}")
        return 1
    print(f"replay of {path}: property {prop} holds on the current tree")
    return 0


def sample_lines(trace, k=2, kinds=None):
    """a few recorded real steps, preferably of the message kinds the property is about"""
    out, fallback = [], []
    with open(trace) as f:
        for ln in f:
            e = json.loads(ln)
            call = json.loads(e["callj"]) if "callj" in e else e["call"]
            m = call.get("inner", call["m"])
            if m in ("instantiate", "faucet", "time"):
                continue
            rec = {"call": call, "ok": e["res"]["ok"], "err": e["res"].get("err", "")[:80], "msgs": e["res"].get("msgs", [])[:4]}
            if kinds and m in kinds:
                if not any(o["call"].get("inner", o["call"]["m"]) == m and o["ok"] == rec["ok"] for o in out):
                    out.append(rec)
            elif e["res"]["ok"] and len(fallback) < k:
                fallback.append(rec)
            if len(out) >= k + 1:
                break
    return out or fallback


# ---------------------------------------------------------------------------------------------
# model checking and TLC-generated tests
MC_DIR = os.path.join(SPEC, "mc")
CACHE = os.path.join(ROOT, "work", "cache")      # pure functions of the specification: shared by every work directory
STAT_RE = re.compile(r"(\d+) states generated, (\d+) distinct states found")


def resolve(name, emit=False):
    """model name -> (module file, cfg file, replay targets)"""
    if name.startswith("own"):
        base, mod, targets = "OwnershipMC" + name[3:], "OwnershipMC.tla", ["staking", "treasury"]
    elif name.startswith("treasury_"):
        base, mod, targets = "TreasuryMC_" + name[len("treasury_"):], "TreasuryMC.tla", ["treasury"]
    else:
        base, mod, targets = "MC_" + name, "MilkyWay.tla", ["staking"]
    return os.path.join(SPEC, mod), os.path.join(MC_DIR, base + ("_emit" if emit else "") + ".cfg"), targets


def spec_hash(cfg):
    import hashlib
    h = hashlib.sha256()
    for fn in sorted(os.listdir(SPEC)):
        if fn.endswith(".tla"):
            h.update(open(os.path.join(SPEC, fn), "rb").read())
    h.update(open(cfg, "rb").read())
    return h.hexdigest()[:16]


def model_check(name, workdir, workers=12, timeout=1500):
    mod, cfg, _ = resolve(name)
    rc, out, wall = tlc(mod, cfg, workdir, workers=workers, timeout=timeout, xmx="12g")
    m = STAT_RE.search(out)
    if "Model checking completed. No error has been found." not in out or not m:
        bad = re.search(r"Invariant (\S+) is violated|Action property (\S+) is violated", out)
        raise ToolError(f"model MC_{name}: the SPECIFICATION itself does not satisfy "
                        f"{bad.group(0) if bad else 'its properties / did not finish'} - this is a defect of the model, not of the code\n" + out[-2500:])
    log(f"[mc] {name}: {m.group(2)} distinct states, {m.group(1)} transitions, all invariants and action properties hold ({wall:.1f}s)")
    return {"model": f"MC_{name}", "states": int(m.group(2)), "transitions": int(m.group(1)), "wall_s": round(wall, 1)}


def reach_check(name, workdir):
    """vacuity guard: the negated reachability predicate must be VIOLATED (i.e. the situation is reachable)"""
    cfg = os.path.join(MC_DIR, f"REACH_{name}.cfg")
    rc, out, wall = tlc(os.path.join(SPEC, "MilkyWay.tla"), cfg, workdir, workers=8, timeout=600)
    if f"Invariant Reach_{name} is violated" not in out:
        raise ToolError(f"vacuity: the situation Reach_{name} is not reachable in the bounded model\n" + out[-1500:])
    log(f"[mc] reachability witness Reach_{name} found ({wall:.1f}s)")
    return True


def edges_for(name, workdir, timeout=3000):
    """TLC-generated tests of MC_<name>: one EDGE line per transition. A pure function of the specification,
    hence cached under work/cache keyed by the hash of spec/*.tla and the cfg."""
    mod, cfg, _ = resolve(name, emit=True)
    os.makedirs(CACHE, exist_ok=True)
    path = os.path.join(CACHE, f"{name}-{spec_hash(cfg)}.edges")
    if os.path.exists(path) and os.path.getsize(path) > 0:
        return path, 0.0
    md = os.path.join(workdir, "md-emit-" + name)
    shutil.rmtree(md, ignore_errors=True)
    e = dict(os.environ)
    e["JAVA_TOOL_OPTIONS"] = "-Xss1g -Xmx8g"
    t0 = time.time()
    tmp = path + ".tmp"
    with open(tmp, "w") as f:
        try:
            p = subprocess.run(["tlc", "-workers", "1", "-metadir", md, "-cleanup", "-noGenerateSpecTE", "-config", cfg,
                                mod], cwd=workdir, env=e, stdout=f, stderr=subprocess.STDOUT, timeout=timeout)
        except subprocess.TimeoutExpired:
            raise ToolError(f"timeout generating tests from MC_{name}")
    shutil.rmtree(md, ignore_errors=True)
    tail = subprocess.run(["tail", "-n", "12", tmp], stdout=subprocess.PIPE, text=True).stdout
    if "Model checking completed. No error has been found." not in tail:
        raise ToolError(f"test generation from MC_{name} failed\n" + tail)
    os.rename(tmp, path)
    log(f"[emit] MC_{name}: tests generated in {time.time()-t0:.1f}s -> {os.path.basename(path)}")
    return path, time.time() - t0


def replay_edges(binp, name, workdir, sample_lines_target, seed, tag=""):
    """returns [(trace path, stats)] - one per replay target (the ownership machine runs against both contracts)"""
    path, _ = edges_for(name, workdir)
    nedges = int(subprocess.run(["grep", "-c", "^\"EDGE ", path], stdout=subprocess.PIPE, text=True).stdout.strip() or 0)
    if nedges == 0:
        raise ToolError(f"no tests in {path}")
    sample_mod = max(1, nedges // max(1, sample_lines_target))
    res = []
    K = 8 if nedges > 20000 else 1
    for target in resolve(name)[2]:
        out = os.path.join(workdir, f"tree-{name}-{target}{tag}.ndjson")
        t0 = time.time()
        procs = []
        for k in range(K):
            pout = f"{out}.part{k}"
            procs.append((pout, subprocess.Popen([binp, "tree", path, pout, str(sample_mod), str(seed), target, str(k), str(K)],
                                                 stdout=subprocess.PIPE, stderr=subprocess.PIPE, text=True)))
        st = None
        with open(out, "w") as merged:
            offset = 0
            for pout, pr in procs:
                so, se = pr.communicate(timeout=3000)
                if pr.returncode != 0:
                    raise ToolError(f"harness tree failed: {se[-2000:]}")
                d = json.loads(so.strip().splitlines()[-1])
                nl = 0
                for ln in open(pout):
                    e = json.loads(ln)
                    e["i"] += offset
                    if e["parent"] > 0:
                        e["parent"] += offset
                    merged.write(json.dumps(e) + "\n")
                    nl += 1
                offset += nl
                os.remove(pout)
                if st is None:
                    st = d
                else:
                    for key in ("executed", "ok", "refused", "mismatches", "logged", "lines"):
                        st[key] += d[key]
                    st["max_depth"] = max(st["max_depth"], d["max_depth"])
                    st["first_mismatch"] = st["first_mismatch"] or d["first_mismatch"]
                    for kk, vv in d["by_kind"].items():
                        cur = st["by_kind"].setdefault(kk, {"ok": 0, "refused": 0})
                        cur["ok"] += vv["ok"]
                        cur["refused"] += vv["refused"]
        st["model"] = f"{name}@{target}"
        st["wall_s"] = round(time.time() - t0, 1)
        if st["executed"] != nedges:
            raise ToolError(f"replay executed {st['executed']} of {nedges} transitions of {name}")
        log(f"[replay] {name}@{target}: {nedges} TLC-generated transitions executed on the real code in {st['wall_s']}s ({K} processes), "
            f"{st['mismatches']} digest mismatches, {st['lines']} lines kept for validation")
        res.append((out, st))
    return res


# ---------------------------------------------------------------------------------------------
# per-property plans


def plan(mc_q, mc_t, emit_q, emit_t, walks_q, walks_t, reach=(), scen=(), wide=None):
    return dict(mc={"quick": mc_q, "thorough": mc_t}, emit={"quick": emit_q, "thorough": emit_t},
                walks={"quick": walks_q, "thorough": walks_t}, reach=list(reach), scen=list(scen),
                wide=wide or {"quick": [], "thorough": []})


W_Q = [("honest", 8, 60), ("chaos", 10, 60), ("admin", 6, 60)]
W_T = [("honest", 300, 80), ("chaos", 500, 80), ("admin", 250, 80)]
# thorough tier: model checking of the larger focused configurations (MC only where a configuration has too many
# transitions to replay in minutes) and replay of the medium ones
FLOW_MC = ["flow_long_t", "flow_amounts_t", "flow_t", "flow_treasury_t", "flow_extras_t", "flow_time_t", "flow_resume_t"]
FLOW_EMIT = ["flow_t", "flow_extras_t", "flow_time_t"]
IBC_MC = ["ibc_t", "ibc2_t"]
# tens of millions of transitions each, model checking only (about ten minutes each at 12 workers)
DEEP_MC = ["flow_deep_t", "ibc_deep_t"]
IBC_EMIT = ["ibc2_t", "ibc_t"]
GATE_MC = ["gate_t", "gateadmin_t"]
GATE_EMIT = ["gate_q", "gateadmin_t"]
PLANS = {
    "C01": plan(["flow_q", "ibc_q", "ibc_hold_q"], FLOW_MC + IBC_MC + DEEP_MC + ["ibc_hold_q"], ["flow_q", "ibc_q", "ibc_hold_q"], FLOW_EMIT + IBC_EMIT + ["ibc_hold_q"], W_Q, W_T, reach=["HonestOutstanding"], scen=["REC12", "MIG"]),
    "C02": plan(["flow_q", "ibc_q", "fees_q", "ibc_hold_q"], FLOW_MC + IBC_MC + ["fees_t", "flow_deep_t", "ibc_hold_q"], ["flow_q", "flow_treasury_q", "fees_q", "ibc_q", "ibc_hold_q"],
                ["flow_t", "flow_treasury_t", "fees_t", "ibc_hold_q"] + IBC_EMIT, W_Q, W_T, reach=["Received"], scen=["KF2", "REC12", "MIG"]),
    "C03": plan(["flow_q", "ibc_q", "same_q", "sender_q", "limits_q", "ibc_hold_q"], FLOW_MC + IBC_MC + ["same_t", "sender_q", "limits_q"],
                ["flow_q", "ibc_q", "same_q", "sender_q", "limits_q", "ibc_hold_q"], FLOW_EMIT + IBC_EMIT + ["same_t"], W_Q, W_T),
    "C04": plan(["flow_q", "limits_q", "limits1_q", "downrate_q"], FLOW_MC + ["limits_q", "limits1_q", "downrate_q"], ["flow_q", "limits_q", "limits1_q", "downrate_q"],
                ["flow_extras_t", "flow_t", "limits_q", "limits1_q", "downrate_q", "flow_resume_t"], W_Q, W_T, wide={"quick": [(30, 60, 0)], "thorough": [(300, 80, 0), (300, 80, 1)]}),
    "C05": plan(["flow_q", "dust_q", "period_q", "long_q", "batches3_q"], FLOW_MC + ["dust_q", "flow_deep_t", "period_q", "long_q", "batches3_q"], ["flow_q", "dust_q", "period_q", "long_q", "batches3_q"],
                FLOW_EMIT + ["dust_q", "period_q", "long_q", "batches3_q"], W_Q, W_T, reach=["Received"], wide={"quick": [(30, 60, 0)], "thorough": [(300, 80, 0), (300, 80, 1)]}, scen=["CROWD"]),
    "C06": plan(["flow_q", "period_q", "downrate_q", "flow_treasury_q"], FLOW_MC + ["period_q", "downrate_q"], ["flow_q", "period_q", "downrate_q", "flow_treasury_q"], FLOW_EMIT + ["period_q", "downrate_q"], W_Q, W_T, reach=["Received"], wide={"quick": [(30, 60, 0)], "thorough": [(300, 80, 0), (300, 80, 1)]}),
    "C07": plan(["ibc_q", "ibc_force_q"], IBC_MC + ["ibc_deep_t", "ibc_force_q"], ["ibc_q", "ibc_force_q"], IBC_EMIT + ["ibc_q", "ibc_force_q"], W_Q, W_T, reach=["Refundable"], scen=["KF2", "REC12", "MIG"]),
    "C08": plan(["gate_q", "own", "gateadmin_t"], GATE_MC + ["own_t"], ["gate_q", "own", "gateadmin_t"], GATE_EMIT + ["own_t"], W_Q, W_T, scen=["MIG"]),
    "C09": plan(["gates_q", "gateadmin_t"], GATE_MC, ["gates_q", "gateadmin_t"], GATE_EMIT, W_Q, W_T, scen=["C09", "MIG"]),
    "C10": plan(["gate_q", "own"], GATE_MC + ["own_t"], ["gate_q", "own"], GATE_EMIT + ["own_t"], W_Q, W_T, scen=["MIG"]),
    "C11": plan(["flow_q", "flow_treasury_q", "fees_q", "fee150_q", "fee100_q", "zerolst_q", "feesfail_q"], ["flow_t", "flow_treasury_t", "flow_amounts_t", "fees_t", "fee150_q", "fee100_q", "zerolst_q", "feesfail_q"],
                ["flow_treasury_q", "fees_q", "fee150_q", "fee100_q", "zerolst_q", "feesfail_q"], ["flow_t", "flow_treasury_t", "fees_t", "fee150_q", "fee100_q", "zerolst_q", "feesfail_q"], W_Q, W_T, scen=["MIG"], wide={"quick": [(30, 60, 0)], "thorough": [(300, 80, 0), (300, 80, 1)]}),
    "C12": plan(["own"], ["own_t"], ["own"], ["own_t"], [("admin", 10, 60)], [("admin", 150, 70)]),
    "C13": plan(["treasury_q", "flow_treasury_q"], ["treasury_t", "flow_treasury_q"], ["treasury_q", "flow_treasury_q"], ["treasury_t", "flow_treasury_q"], [], [], scen=["TINST"]),
    "C14": plan(["gates_q", "gateadmin_t"], ["gateadmin_t"], ["gateadmin_t"], ["gateadmin_t"], [("admin", 8, 60)], [("admin", 100, 70)]),
    "C15": plan(["flow_q", "flow_treasury_q", "resume_q", "zerolst_q"], ["flow_t", "flow_treasury_t", "flow_amounts_t", "flow_resume_t", "zerolst_q"], ["flow_q", "flow_treasury_q", "resume_q", "zerolst_q"],
                ["flow_t", "flow_treasury_t", "flow_extras_t", "zerolst_q", "resume_q"], W_Q, W_T, scen=["MIG"]),
    "C16": plan(["flow_q", "gates_q", "downrate_q"], FLOW_MC + IBC_MC + GATE_MC + ["downrate_q"], ["flow_treasury_q", "ibc_q", "gates_q", "own", "treasury_q", "downrate_q", "fee150_q"],
                ["flow_t", "flow_treasury_t", "flow_extras_t", "flow_resume_t", "ibc2_t", "gate_q", "gateadmin_t", "own_t", "treasury_q", "downrate_q", "fee150_q"], W_Q, W_T,
                wide={"quick": [(30, 60, 0), (30, 60, 1)], "thorough": [(400, 80, 0), (400, 80, 1)]}),
    "C17": plan(["flow_q", "dust_q"], ["flow_t", "dust_q"], ["flow_q", "dust_q"], ["flow_t", "dust_q"], [("chaos", 6, 60)], [("chaos", 60, 70)], scen=["CROWD"]),
    "C18": plan(["ibc_q"], IBC_MC, [], [], [], [], scen=["C18"]),
    "C19": plan(["flow_q", "limits1_q", "downrate_q", "flow_treasury_q", "sender_q"], ["flow_t", "limits1_q", "downrate_q", "flow_treasury_q", "sender_q"], ["flow_q", "limits1_q", "downrate_q", "flow_treasury_q", "sender_q"],
                ["flow_t", "limits1_q", "limits_q", "downrate_q", "flow_resume_t", "flow_treasury_t"],
                [("chaos", 8, 60)], [("chaos", 100, 70)], scen=["C19b", "CROWD"]),
}
LEVEL = "model_checking"

# vacuity guard: message kinds / outcomes that the replayed TLC-generated transitions of a property MUST contain
# (accepted and refused); a zero count means the property's clauses were not exercised -> tool error, not a pass
REQUIRED = {
    "C01": [("liquid_stake", "ok"), ("submit_batch", "ok"), ("receive_rewards", "ok"), ("recover", "ok"), ("ibc_ack", "ok")],
    "C02": [("withdraw", "ok"), ("fee_withdraw", "ok"), ("fee_withdraw", "refused"), ("receive_unstaked_tokens", "ok"), ("recover", "ok")],
    "C03": [("liquid_stake", "ok"), ("liquid_stake", "refused"), ("submit_batch", "ok"), ("liquid_unstake", "ok"), ("recover", "ok")],
    "C04": [("liquid_stake", "ok"), ("liquid_stake", "refused"), ("submit_batch", "ok")],
    "C05": [("withdraw", "ok"), ("withdraw", "refused"), ("liquid_unstake", "ok"), ("receive_unstaked_tokens", "ok")],
    "C06": [("submit_batch", "ok"), ("submit_batch", "refused"), ("receive_unstaked_tokens", "ok"), ("receive_unstaked_tokens", "refused"), ("time", "ok")],
    "C07": [("recover", "ok"), ("recover", "refused"), ("ibc_ack", "ok"), ("stray", "ok"), ("liquid_stake", "refused")],
    "C08": [("fee_withdraw", "refused"), ("resume_contract", "refused"), ("circuit_breaker", "refused"), ("add_validator", "refused"),
            ("update_config", "refused"), ("transfer_ownership", "refused"), ("accept_ownership", "refused"), ("receive_rewards", "refused"),
            ("receive_unstaked_tokens", "refused"), ("recover", "refused")],
    "C09": [("receive_rewards", "ok"), ("receive_rewards", "refused"), ("receive_unstaked_tokens", "refused")],
    "C10": [("circuit_breaker", "ok"), ("resume_contract", "ok"), ("liquid_stake", "refused"), ("submit_batch", "refused"), ("withdraw", "refused"),
            ("receive_rewards", "refused")],
    "C11": [("receive_rewards", "ok"), ("receive_rewards", "refused"), ("fee_withdraw", "ok"), ("fee_withdraw", "refused"), ("update_config", "ok")],
    "C12": [("transfer_ownership", "ok"), ("accept_ownership", "ok"), ("accept_ownership", "refused"), ("revoke_ownership_transfer", "ok"),
            ("t_transfer_ownership", "ok"), ("t_accept_ownership", "ok"), ("t_accept_ownership", "refused"),
            # the interleaved other operations of OwnershipMC.tla (Interfere) must really have run
            ("resume_contract", "ok"), ("circuit_breaker", "ok"), ("update_config", "ok"), ("migrate_roundtrip", "ok"), ("t_update_config", "ok"), ("t_spend", "ok")],
    "C13": [("t_swap_in", "ok"), ("t_swap_in", "refused"), ("t_swap_out", "ok"), ("t_spend", "ok"), ("t_spend", "refused"), ("t_update_config", "refused")],
    "C15": [("liquid_stake", "ok"), ("submit_batch", "ok"), ("receive_rewards", "ok"), ("resume_contract", "ok")],
}


def vacuity_check(prop, replays):
    tot = {}
    for st in replays:
        for k, v in st["by_kind"].items():
            cur = tot.setdefault(k, {"ok": 0, "refused": 0})
            cur["ok"] += v["ok"]
            cur["refused"] += v["refused"]
    missing = [f"{k}:{o}" for (k, o) in REQUIRED.get(prop, []) if tot.get(k, {}).get(o, 0) == 0]
    if missing:
        raise ToolError(f"vacuity: the replayed transitions of {prop} contain no {missing}")
    return tot


# ---------------------------------------------------------------------------------------------
# C04: arithmetic proved for all naturals (TLAPS), bound to the code by exhaustive small vectors (TLC)
# and 128-bit vectors (Apalache, unbounded integers)
def hook_c04(binp, tier, seed, wd):
    extra, viols = {}, []
    # (a) TLAPS
    pdir = os.path.join(SPEC, "proofs")
    shutil.rmtree(os.path.join(pdir, ".tlacache"), ignore_errors=True)
    rc, out = sh(["tlapm", "--threads", "8", "--cleanfp", "-I", "..", "ArithProofs.tla"], cwd=pdir, timeout=900)
    m = re.search(r"All (\d+) obligations? proved", out)
    shutil.rmtree(os.path.join(pdir, ".tlacache"), ignore_errors=True)
    if not m:
        raise ToolError("TLAPS did not prove spec/proofs/ArithProofs.tla\n" + out[-2000:])
    extra["obligations"] = int(m.group(1))
    extra["discharged"] = int(m.group(1))
    log(f"[tlaps] ArithProofs: all {m.group(1)} obligations proved")
    # (b) every (N, L, a) and (N, L, b <= L) of the small domain through the real helpers, checked by TLC
    k = 40 if tier == "quick" else 70
    small = os.path.join(wd, "arith-small.ndjson")
    ev = json.loads(mwh(binp, ["arith-small", k, small]).strip().splitlines()[-1])
    rc, out, wall = tlc(os.path.join(SPEC, "ArithTrace.tla"), os.path.join(SPEC, "ArithTrace.cfg"), wd, env={"TRACE": small}, timeout=900)
    nrec = sum(1 for _ in open(small))
    if f"TRACE-CONSUMED {nrec}" not in out:
        raise ToolError("ArithTrace did not consume the vector file\n" + out[-2000:])
    bad = [json.loads(unq(m2.group(1))) for m2 in (FIND_RE.match(x.strip()) for x in out.splitlines()) if m2]
    extra["small_domain"] = {"K": k, "evaluations": ev["evaluations"], "records": nrec, "mismatching_records": len(bad), "exhaustive": True}
    log(f"[arith] {ev['evaluations']} results of the real helpers for all N, L, a in 0..{k} checked by TLC in {wall:.1f}s: {len(bad)} bad records")
    if bad:
        viols.append(("small", small, bad[0]))
    # (c) 128-bit vectors: Apalache evaluates the same definitions over unbounded integers
    nvec = 120 if tier == "quick" else 1200
    vecs = os.path.join(wd, "arith-big.json")
    mwh(binp, ["arith-big", seed, nvec, vecs])
    v = json.load(open(vecs))
    chunks = [v[i:i + 300] for i in range(0, len(v), 300)]
    nbad = 0
    adir = os.path.join(wd, "apa")
    os.makedirs(adir, exist_ok=True)
    shutil.copy(os.path.join(SPEC, "ArithCore.tla"), adir)
    t0 = time.time()
    for ci, ch in enumerate(chunks):
        rows = [f' [op |-> "{e["op"]}", n |-> {e["n"]}, l |-> {e["l"]}, x |-> {e["x"]}, r |-> {e["r"] if e["r"] != "panic" else -1}]' for e in ch]
        mod = f"BigVectors{ci}"
        src = ["---- MODULE " + mod + " ----", "EXTENDS Integers, Sequences, ArithCore", "VARIABLE", "  \\* @type: Int;", "  x",
               "\\* @type: Seq({op: Str, n: Int, l: Int, x: Int, r: Int});", "Vectors == <<", ",\n".join(rows), ">>",
               "Init == x = 0", "Next == x' = x",
               'Inv == \\A i \\in DOMAIN Vectors : LET v == Vectors[i] IN IF v.op = "mint" THEN v.r = MintAmount(v.n, v.l, v.x) ELSE v.r = UnbondAmount(v.n, v.l, v.x)',
               "===="]
        open(os.path.join(adir, mod + ".tla"), "w").write("\n".join(src) + "\n")
        rc, out = sh(["apalache-mc", "check", "--inv=Inv", "--length=0", mod + ".tla"], cwd=adir, timeout=1500)
        if "EXITCODE: OK" in out:
            continue
        if "violat" in out.lower() or "EXITCODE: ERROR (12)" in out:
            nbad += 1
            viols.append(("big", os.path.join(adir, mod + ".tla"), {"chunk": ci}))
        else:
            raise ToolError("apalache failed\n" + out[-1500:])
    shutil.rmtree(os.path.join(adir, "_apalache-out"), ignore_errors=True)
    npanic = sum(1 for e in v if e["r"] == "panic")
    extra["big_vectors"] = {"vectors": len(v), "chunks": len(chunks), "violating_chunks": nbad, "panics_in_representable_range": npanic,
                            "sample": v[:2], "wall_s": round(time.time() - t0, 1)}
    log(f"[apalache] {len(v)} 128-bit vectors of the real helpers against ArithCore: {nbad} violating chunks, {npanic} panics ({time.time()-t0:.1f}s)")
    # (d) second opinion: Apalache checks the lemmas over ALL naturals as invariants (and refutes two false variants)
    ldir = os.path.join(wd, "apa-lemmas")
    os.makedirs(ldir, exist_ok=True)
    shutil.copy(os.path.join(SPEC, "ArithCore.tla"), ldir)
    shutil.copy(os.path.join(SPEC, "proofs", "ArithApalache.tla"), ldir)
    res = {}
    for inv, want_ok in [("FloorMint", True), ("NoDilutionStake", True), ("NoDilutionSubmit", True), ("NoRoundTripProfit", True),
                         ("FeeBound", True), ("False_StrictDilution", False), ("False_CeilMint", False)]:
        rc, out = sh(["apalache-mc", "check", "--length=0", f"--inv={inv}", "ArithApalache.tla"], cwd=ldir, timeout=600)
        ok = "EXITCODE: OK" in out
        refuted = "EXITCODE: ERROR (12)" in out
        if (want_ok and not ok) or (not want_ok and not refuted):
            raise ToolError(f"Apalache lemma {inv}: expected {'to hold' if want_ok else 'to be refuted'}\n" + out[-1200:])
        res[inv] = "holds for all naturals" if want_ok else "refuted (sanity)"
    shutil.rmtree(os.path.join(ldir, "_apalache-out"), ignore_errors=True)
    extra["apalache_lemmas"] = res
    log(f"[apalache] {len(res)} lemma checks over unbounded naturals: 5 hold, 2 false variants refuted")
    extra["trusted_base"] = ["tlapm 1.6.0-pre with Z3/Zenon/Isabelle back ends", "TLC", "Apalache 0.58 + Z3"]
    return extra, viols


def hook_c19(binp, tier, seed, wd):
    """both cargo feature configurations: same tests and seeds through both builds; each trace validated by
    Trace.tla (wire atoms), the pair by DualTrace.tla (identical modulo the token-factory type URLs)"""
    extra, viols = {}, []
    bin_mw = build(True)
    pairs = []
    # (limits1_q: stakes whose mint rounds to zero, expectations one below / at / above the mint)
    for name in (["flow_q", "limits1_q"] if tier == "quick" else ["flow_t", "limits1_q", "limits_q"]):
        path, _ = edges_for(name, wd)
        outs = {}
        for tag, b in (("osmosis", binp), ("miniwasm", bin_mw)):
            (out, st), = replay_edges(b, name, wd, 1200 if tier == "quick" else 8000, seed, tag="-" + tag)
            outs[tag] = out
            extra[f"tree_{name}_{tag}"] = {k: st[k] for k in ("executed", "mismatches", "lines")}
        pairs.append(("tree-" + name, outs["osmosis"], outs["miniwasm"]))
    for mode, runs, steps in ([("chaos", 8, 60), ("honest", 6, 60)] if tier == "quick" else [("chaos", 100, 70), ("honest", 60, 70), ("admin", 60, 70)]):
        fa, fb = os.path.join(wd, f"dual-{mode}-osmosis.ndjson"), os.path.join(wd, f"dual-{mode}-miniwasm.ndjson")
        mwh(binp, ["walk", fa, seed, runs, steps, mode])
        mwh(bin_mw, ["walk", fb, seed, runs, steps, mode])
        pairs.append((mode, fa, fb))
    # sub-denoms of every accepted length (incl. ones the chain's token factory refuses), both builds
    for sc in ("C19", "C19b"):
        fa, fb = os.path.join(wd, f"dual-scen{sc}-osmosis.ndjson"), os.path.join(wd, f"dual-scen{sc}-miniwasm.ndjson")
        mwh(binp, ["exec", os.path.join(ROOT, "scenarios", sc + ".ndjson"), fa])
        mwh(bin_mw, ["exec", os.path.join(ROOT, "scenarios", sc + ".ndjson"), fb])
        pairs.append(("scen" + sc, fa, fb))
    # the wide-range driver in both builds (outcome classes only): amounts one build's glue might not be able to carry
    wide_pairs = []
    for runs, steps, extreme in ([(30, 60, 0)] if tier == "quick" else [(300, 80, 0), (300, 80, 1)]):
        fa, fb = os.path.join(wd, f"dualwide-{extreme}-osmosis.ndjson"), os.path.join(wd, f"dualwide-{extreme}-miniwasm.ndjson")
        mwh(binp, ["wide", fa, seed, runs, steps, extreme])
        mwh(bin_mw, ["wide", fb, seed, runs, steps, extreme])
        wide_pairs.append((f"wide-{extreme}", fa, fb))
    nl = 0
    dual_find = []
    for tag, fa, fb in wide_pairs:
        rc, out, wall = tlc(os.path.join(SPEC, "DualWide.tla"), os.path.join(SPEC, "DualWide.cfg"), wd,
                            env={"TRACE_A": fa, "TRACE_B": fb}, timeout=1800, xmx="8g")
        if "TRACE-CONSUMED" not in out:
            raise ToolError("DualWide did not consume the pair " + tag + "\n" + out[-2000:])
        n = sum(1 for _ in open(fa))
        nl += n
        fs = [json.loads(unq(m2.group(1))) for m2 in (FIND_RE.match(x.strip()) for x in out.splitlines()) if m2]
        log(f"[dual] {tag}: {n} wide-range line pairs (osmosis vs miniwasm build) compared by DualWide in {wall:.1f}s: {len(fs)} differing lines")
        if fs:
            dual_find.append((tag, fb, fs[0]))
    for tag, fa, fb in pairs:
        rc, out, wall = tlc(os.path.join(SPEC, "DualTrace.tla"), os.path.join(SPEC, "DualTrace.cfg"), wd,
                            env={"TRACE_A": fa, "TRACE_B": fb}, timeout=1800, xmx="8g")
        if "TRACE-CONSUMED" not in out:
            raise ToolError("DualTrace did not consume the pair " + tag + "\n" + out[-2000:])
        n = sum(1 for _ in open(fa))
        nl += n
        fs = [json.loads(unq(m2.group(1))) for m2 in (FIND_RE.match(x.strip()) for x in out.splitlines()) if m2]
        log(f"[dual] {tag}: {n} line pairs (osmosis vs miniwasm build) compared by DualTrace in {wall:.1f}s: {len(fs)} differing lines")
        if fs:
            dual_find.append((tag, fb, fs[0]))
    # wire level: every token-factory message of both builds against ProtoWire (spec/proto/TfWire.tla)
    recs = os.path.join(wd, "tfwire.ndjson")
    nrec = 0
    with open(recs, "w") as outf:
        for tag, b in (("osmosis", binp), ("miniwasm", bin_mw)):
            raw = os.path.join(wd, f"raw-{tag}.ndjson")
            rc, o = sh([b, "walk", raw, str(seed), "6" if tier == "quick" else "60", "60", "chaos"], env={"MWH_RAW": "1"}, timeout=900)
            if rc != 0:
                raise ToolError("raw walk failed\n" + o[-1000:])
            for ln in open(raw):
                e = json.loads(ln)
                sub = e["call"].get("cfg", {}).get("sub", "stTIA") if e["call"]["m"] == "instantiate" else "stTIA"
                for m in e["res"]["msgs"]:
                    if "raw" not in m:
                        continue
                    contract = bytes(m["contract_raw"]).decode()
                    denom = f"factory/{contract}/{sub}"
                    outf.write(json.dumps({"build": e["build"], "url": m["url"], "k": m["k"], "bs": m["raw"], "contract": m["contract_raw"],
                                           "denom": list(denom.encode()), "amount": list(str(m.get("amt", "")).encode()),
                                           "sub": list(sub.encode())}) + "\n")
                    nrec += 1
    if nrec == 0:
        raise ToolError("no token-factory messages recorded")
    rc, out, wall = tlc(os.path.join(SPEC, "proto", "TfWire.tla"), os.path.join(SPEC, "proto", "TfWire.cfg"), wd, env={"TRACE": recs}, timeout=1200)
    if f"TRACE-CONSUMED {nrec}" not in out:
        raise ToolError("TfWire did not consume the records\n" + out[-2000:])
    tf_fs = []
    for x in out.splitlines():
        m2 = FIND_RE.match(x.strip())
        if m2:
            tf_fs.extend(json.loads(unq(m2.group(1)))["fs"])
    log(f"[tfwire] {nrec} token-factory messages of both builds decoded by ProtoWire under the target chain's descriptor in {wall:.1f}s: {len(tf_fs)} findings")
    extra["tfwire_messages"] = nrec
    extra["tfwire_findings"] = len(tf_fs)
    if tf_fs:
        viols.append(("tfwire", recs, tf_fs[0]))
    extra["dual_line_pairs_compared"] = nl
    extra["dual_differing_pairs"] = len(dual_find)
    for tag, fb, f in dual_find:
        viols.append((f"dual-{tag}", fb, f))
    # the miniwasm traces are also validated individually (wire atoms) by the caller through extra_traces
    extra["_extra_traces"] = [(fb, f"miniwasm-{tag}") for tag, fa, fb in pairs if tag != "scenC19"]
    return extra, viols


def small_trace_check(spec, trace, wd, timeout=600):
    """runs one of the single-purpose trace specs (HookTrace, QueryTrace, ...) and returns its findings"""
    rc, out, wall = tlc(os.path.join(SPEC, spec + ".tla"), os.path.join(SPEC, spec + ".cfg"), wd, env={"TRACE": trace}, timeout=timeout)
    n = sum(1 for _ in open(trace))
    if f"TRACE-CONSUMED {n}" not in out:
        raise ToolError(f"{spec} did not consume {trace}\n" + out[-2000:])
    fs = []
    for x in out.splitlines():
        m2 = FIND_RE.match(x.strip())
        if m2:
            rec = json.loads(unq(m2.group(1)))
            fs.extend(rec.get("fs", [rec]))
    return n, fs, wall


def hook_c09(binp, tier, seed, wd):
    extra, viols = {}, []
    nvec = 400 if tier == "quick" else 6000
    hv = os.path.join(wd, "hookvec.ndjson")
    mwh(binp, ["hookvec", seed, nvec, hv])
    n, fs, wall = small_trace_check("HookTrace", hv, wd)
    log(f"[hook] {n} (channel, sender, prefix) triples: contract derivation vs simulator's keeper transcription, {len(fs)} findings ({wall:.1f}s)")
    extra["derivation_vectors"] = n
    extra["derivation_findings"] = len(fs)
    if fs:
        viols.append(("hookvec", hv, fs[0]))
    ha = os.path.join(wd, "hookauth.ndjson")
    mwh(binp, ["hookauth", ha])
    n2, fs2, wall = small_trace_check("HookAuthTrace", ha, wd)
    acc = sum(1 for l in open(ha) if json.loads(l)["accepted"])
    log(f"[hook] {n2} deliveries offered under every stored (prefix, channel) the contract accepts: {acc} accepted, "
        f"{n2 - acc} refused, {len(fs2)} findings ({wall:.1f}s)")
    extra["auth_attempts"] = n2
    extra["auth_accepted"] = acc
    extra["auth_findings"] = len(fs2)
    if acc == 0 or acc == n2:
        raise ToolError("hookauth: vacuous (no delivery accepted / none refused)")
    if fs2:
        viols.append(("hookauth", ha, fs2[0]))
    cfg = os.path.join(wd, "HookLemma.cfg")
    open(cfg, "w").write(f"SPECIFICATION Spec\nCONSTANT MaxLen = {3 if tier == 'quick' else 4}\nINVARIANT Unambiguous\nCHECK_DEADLOCK FALSE\n")
    rc, out, wall = tlc(os.path.join(SPEC, "HookLemma.tla"), cfg, wd, workers=4, timeout=900)
    if "No error has been found" not in out:
        raise ToolError("HookLemma: the unambiguity lemma fails in the specification\n" + out[-1500:])
    log(f"[hook] unambiguity lemma checked exhaustively for strings up to length {3 if tier == 'quick' else 4} ({wall:.1f}s)")
    extra["unambiguity_lemma_maxlen"] = 3 if tier == "quick" else 4
    return extra, viols


def hook_c17(binp, tier, seed, wd):
    extra, viols = {}, []
    # the paging theorem of Queries.tla over all stores of <= 5 (6) batches
    cfg = os.path.join(wd, "QueriesMC.cfg")
    open(cfg, "w").write(f"SPECIFICATION Spec\nCONSTANT MaxBatches = {5 if tier == 'quick' else 6}\nINVARIANTS Complete Ascending PagesArePrefixes\nCHECK_DEADLOCK FALSE\n")
    rc, out, wall = tlc(os.path.join(SPEC, "QueriesMC.tla"), cfg, wd, workers=8, timeout=1200)
    m = STAT_RE.search(out)
    if "No error has been found" not in out or not m:
        raise ToolError("QueriesMC: paging theorem fails in the specification\n" + out[-1500:])
    extra["paging_theorem"] = {"stores": int(m.group(2)), "max_batches": 5 if tier == "quick" else 6}
    log(f"[query] paging completeness theorem holds on all {m.group(2)} stores ({wall:.1f}s)")
    qs = os.path.join(wd, "qsweep.ndjson")
    runs, steps = (4, 40) if tier == "quick" else (120, 80)
    mwh(binp, ["qsweep", qs, seed, runs, steps, 15])
    n, fs, wall = small_trace_check("QueryTrace", qs, wd, timeout=1800)
    kinds = {}
    for ln in open(qs):
        k = json.loads(ln)["kind"]
        kinds[k] = kinds.get(k, 0) + 1
    extra["query_records"] = n
    extra["query_records_by_kind"] = kinds
    extra["query_findings"] = len(fs)
    with open(qs) as f:
        extra["query_sample"] = json.loads(f.readline())
    log(f"[query] {n} real query responses ({kinds}) checked against Queries.tla in {wall:.1f}s: {len(fs)} findings")
    if fs:
        viols.append(("qsweep", qs, fs[0]))
    return extra, viols


def hook_c18(binp, tier, seed, wd):
    extra, viols = {}, []
    mv = os.path.join(wd, "migvec.ndjson")
    mwh(binp, ["migvec", seed, 4 if tier == "quick" else 150, mv])
    n, fs, wall = small_trace_check("MigrateTrace", mv, wd)
    kinds = {}
    for ln in open(mv):
        r = json.loads(ln)
        k = f"{r['kind']}:{r.get('path', '')}:{'ok' if r['ok'] else 'refused'}"
        kinds[k] = kinds.get(k, 0) + 1
    extra["migrate_records"] = n
    extra["migrate_records_by_kind"] = kinds
    extra["migrate_findings"] = len(fs)
    log(f"[migrate] {n} migrate calls (versions x names x paths on raw legacy stores) checked against Migration.tla in {wall:.1f}s: {len(fs)} findings")
    if fs:
        viols.append(("migvec", mv, fs[0]))
    return extra, viols


def cfg_messages(tier, wd):
    """TLC enumerates the abstract configuration messages of ConfigRules.tla (cached: a pure function of the spec)"""
    cfg = os.path.join(MC_DIR, f"ConfigMC_{'q' if tier == 'quick' else 't'}.cfg")
    os.makedirs(CACHE, exist_ok=True)
    path = os.path.join(CACHE, f"config-{tier}-{spec_hash(cfg)}.cfgmsgs")
    if not (os.path.exists(path) and os.path.getsize(path) > 0):
        rc, out, wall = tlc(os.path.join(SPEC, "ConfigMC.tla"), cfg, wd, workers=1, timeout=1800)
        if "No error has been found" not in out:
            raise ToolError("ConfigMC failed\n" + out[-1500:])
        with open(path, "w") as f:
            f.write(out)
        log(f"[config] TLC enumerated the configuration message space in {wall:.1f}s")
    return path


def run_cfg(binp, msgs, wd):
    out = os.path.join(wd, "cfg.ndjson")
    mwh(binp, ["cfgexec", msgs, out])
    n, fs, wall = small_trace_check("ConfigTrace", out, wd, timeout=1800)
    return out, n, fs, wall


def hook_c14(binp, tier, seed, wd):
    extra, viols = {}, []
    msgs = cfg_messages(tier, wd)
    nm = int(subprocess.run(["grep", "-c", '^"CFG ', msgs], stdout=subprocess.PIPE, text=True).stdout.strip() or 0)
    extra["validator_sequences_enumerated_by_tlc"] = int(subprocess.run(["grep", "-c", '^"VSEQ ', msgs], stdout=subprocess.PIPE, text=True).stdout.strip() or 0)
    out, n, fs, wall = run_cfg(binp, msgs, wd)
    stats = {}
    for ln in open(out):
        r = json.loads(ln)
        k = f"{r['kind']}:{'accepted' if r['ok'] else 'refused'}"
        stats[k] = stats.get(k, 0) + 1
    extra["config_messages_enumerated_by_tlc"] = nm
    extra["config_records"] = n
    extra["config_outcomes"] = stats
    extra["config_findings"] = len(fs)
    log(f"[config] {nm} TLC-enumerated messages + validator matrix executed on the real contract ({stats}); ConfigTrace: {len(fs)} findings ({wall:.1f}s)")
    if fs:
        # replay file = the abstract messages of the offending records
        lines = open(msgs).read().splitlines(keepends=True)
        recs = [json.loads(l) for l in open(out)]
        srcs = sorted({recs[f["l"] - 1].get("src", 0) for f in fs if 0 < f["l"] <= len(recs)} - {0})
        rp = os.path.join(wd, "offending.cfgmsgs")
        with open(rp, "w") as f:
            for i in srcs[:20]:
                f.write(lines[i - 1])
        viols.append(("config", rp, fs[0]))
    return extra, viols


def hook_c12(binp, tier, seed, wd):
    """C12 without bounds: Apalache discharges the inductive invariant of spec/proofs/OwnershipInd.tla (arbitrary principals,
    unbounded integer time) and refutes two deliberately false variants"""
    extra, viols = {}, []
    adir = os.path.join(wd, "apalache-own")
    os.makedirs(adir, exist_ok=True)
    shutil.copy(os.path.join(SPEC, "Ownership.tla"), adir)
    shutil.copy(os.path.join(SPEC, "proofs", "OwnershipInd.tla"), adir)
    res = {}
    t0 = time.time()
    for label, args, want_ok in [
            ("Init => IndInv", ["--init=Init", "--inv=IndInv", "--length=0"], True),
            ("IndInv /\\ Next => IndInv'", ["--init=IndInit", "--inv=IndInv", "--length=1"], True),
            ("IndInv => Safe", ["--init=IndInit", "--inv=Safe", "--length=0"], True),
            ("False_NeverChanges", ["--init=Init", "--inv=False_NeverChanges", "--length=3"], False),
            ("False_EightDays", ["--init=Init", "--inv=False_EightDays", "--length=3"], False)]:
        rc, out = sh(["apalache-mc", "check", "--cinit=ConstInit"] + args + ["OwnershipInd.tla"], cwd=adir, timeout=900)
        ok = "EXITCODE: OK" in out
        refuted = "EXITCODE: ERROR (12)" in out
        if (want_ok and not ok) or (not want_ok and not refuted):
            raise ToolError(f"Apalache OwnershipInd {label}: expected {'to hold' if want_ok else 'to be refuted'}\n" + out[-1500:])
        res[label] = "holds (unbounded time, any principals among five names)" if want_ok else "refuted (sanity)"
    shutil.rmtree(os.path.join(adir, "_apalache-out"), ignore_errors=True)
    extra["apalache_inductive_invariant"] = res
    log(f"[apalache] handover machine: inductive invariant discharged for unbounded time, 2 false variants refuted ({time.time()-t0:.1f}s)")
    return extra, viols


def liveness(cfgname, wd, expect_violation=None):
    """TLC liveness checking of spec/MilkyWayLive.tla on a CLOSED bounded model (no state constraint)"""
    rc, out, wall = tlc(os.path.join(SPEC, "MilkyWayLive.tla"), os.path.join(MC_DIR, cfgname + ".cfg"), wd, workers=4, timeout=1200, xmx="8g")
    m = STAT_RE.search(out)
    if expect_violation:
        if f"Temporal property {expect_violation} was violated" not in out:
            raise ToolError(f"liveness sanity {cfgname}: {expect_violation} was expected to fail without operator fairness\n" + out[-1200:])
    elif "No error has been found" not in out or not m:
        raise ToolError(f"liveness {cfgname}: the specification does not satisfy its liveness properties\n" + out[-2000:])
    log(f"[live] {cfgname}: {'violated as expected (sanity)' if expect_violation else 'temporal properties hold'} ({wall:.1f}s)")
    return {"config": cfgname, "states": int(m.group(2)) if m else 0, "expected_violation": expect_violation or ""}


def hook_c06(binp, tier, seed, wd):
    # beyond the listed (safety) property: with a live operator every Submitted batch is eventually Received and
    # every request eventually withdrawn; without operator fairness the same property fails (sanity)
    extra = {"liveness": [liveness("LIVE_flow", wd), liveness("LIVE_flow_lazy", wd, "L_Received")]}
    return extra, []


def hook_c07(binp, tier, seed, wd):
    extra = {"liveness": [liveness("LIVE_ibc", wd)]}
    return extra, []


def hook_c16(binp, tier, seed, wd):
    """entry points outside the state-machine traces: migrate (all version strings / names / paths on legacy stores),
    instantiate / UpdateConfig / validator messages of the TLC-enumerated configuration space, the query sweeps - a
    panic in any of those records is a C16 finding (MigrateTrace / ConfigTrace / QueryTrace report `panic`)."""
    extra, viols = {}, []
    mv = os.path.join(wd, "migvec.ndjson")
    mwh(binp, ["migvec", seed, 3 if tier == "quick" else 20, mv])
    n1, fs1, _ = small_trace_check("MigrateTrace", mv, wd)
    msgs = cfg_messages(tier, wd)
    out, n2, fs2, _ = run_cfg(binp, msgs, wd)
    qs = os.path.join(wd, "qsweep.ndjson")
    rc, o = sh([binp, "qsweep", qs, str(seed), "2" if tier == "quick" else "20", "40", "15"], timeout=1800)
    npanic_q = o.count("__panic")
    pan = [f for f in fs1 + fs2 if "panic" in str(f.get("atom", ""))]
    extra["migrate_calls"] = n1
    extra["config_messages"] = n2
    extra["panics_outside_traces"] = len(pan) + npanic_q
    log(f"[c16] {n1} migrate calls, {n2} configuration / validator messages, query sweeps: {len(pan) + npanic_q} panics")
    for f in pan[:1]:
        viols.append(("panic", mv if f in fs1 else out, f))
    return extra, viols


HOOKS = {"C12": hook_c12, "C04": hook_c04, "C19": hook_c19, "C09": hook_c09, "C17": hook_c17, "C18": hook_c18, "C14": hook_c14, "C16": hook_c16,
         "C06": hook_c06, "C07": hook_c07}


def run_property(prop, tier, seed):
    if prop not in PLANS:
        raise ToolError(f"no plan for {prop}")
    pl = PLANS[prop]
    wd = os.path.join(WORK, f"{prop}-{tier}")
    shutil.rmtree(wd, ignore_errors=True)
    os.makedirs(wd)
    t0 = time.time()
    binp = build(False)
    known = load_known()
    hook_extra, hook_viols = ({}, [])
    if prop in HOOKS:
        hook_extra, hook_viols = HOOKS[prop](binp, tier, seed, wd)
    # 1. the design satisfies the property (bounded, exhaustive)
    mcs = [model_check(n, wd, timeout=5400 if n.endswith("deep_t") else 1500) for n in pl["mc"][tier]]
    for r in pl["reach"]:
        reach_check(r, wd)
    # 2. TLC-generated transitions replayed through the real code
    traces = [tuple(x) for x in hook_extra.pop("_extra_traces", [])]
    replays = []
    for n in pl["emit"][tier]:
        for out, st in replay_edges(binp, n, wd, 600 if tier == "quick" else 12000, seed):
            traces.append((out, "tree-" + st["model"].replace("@", "-")))
            replays.append(st)
    action_totals = vacuity_check(prop, replays)
    # 3. drivers on the real code
    nruns = 0
    for mode, runs, steps in pl["walks"][tier]:
        out = os.path.join(wd, f"walk-{mode}.ndjson")
        mwh(binp, ["walk", out, seed, runs, steps, mode])
        traces.append((out, f"walk-{mode}"))
        nruns += runs
    for sc in pl["scen"]:
        out = os.path.join(wd, f"scen-{sc}.ndjson")
        mwh(binp, ["exec", os.path.join(ROOT, "scenarios", sc + ".ndjson"), out])
        traces.append((out, f"scen-{sc}"))
        nruns += 1
    for runs, steps, extreme in pl["wide"][tier]:
        out = os.path.join(wd, f"wide-{extreme}.ndjson")
        mwh(binp, ["wide", out, seed, runs, steps, extreme])
        traces.append((out, f"wide-{extreme}"))
        nruns += runs
    # 4. every recorded transaction against the specification
    total_lines = 0
    mine, others, divergences = [], 0, 0
    first_replay = None
    for path, tag in traces:
        n, findings = validate_trace(path, wd)
        total_lines += n
        # a digest mismatch that the validator cannot explain means the model's call alphabet and the harness's
        # concretisation disagree (names, classes): the replay did not test what the model generated
        st = next((r for r in replays if tag == "tree-" + r["model"].replace("@", "-")), None)
        if st and st["mismatches"] > 0 and not findings:
            raise ToolError(f"model / harness desync on {st['model']}: {st['mismatches']} digest mismatches but no finding; first: "
                            + json.dumps(st.get("first_mismatch"))[:600])
        for f in findings:
            f["tag"] = tag
            if prop in f.get("props", []):
                k = is_known(prop, f, known)
                if k:
                    f["known"] = k["id"]
                mine.append((f, path, tag))
            elif f["kind"] == "unexpected_failure" and not f.get("props"):
                divergences += 1
            else:
                others += 1
    new = [(f, p, t) for (f, p, t) in mine if "known" not in f]
    for kid in sorted({f["known"] for (f, _, _) in mine if "known" in f}):
        k = [k for k in known if k["id"] == kid][0]
        print(f"KNOWN-FINDING: property={prop} {k['what']}")
    rc = 0
    for kind, path, what in hook_viols:
        os.makedirs(REPLAYS, exist_ok=True)
        dst = os.path.join(REPLAYS, f"{prop}-{tier}-{seed}-{kind}-" + os.path.basename(path))
        shutil.copy(path, dst)
        log("finding:", json.dumps(what)[:600])
        print(f"VIOLATION property={prop} replay={dst}")
        rc = 1
    if new:
        f, path, tag = new[0]
        first_replay = write_replay(prop, path, f, f"{tier}-{seed}-{tag}")
        for (g, _, _) in new[:8]:
            log("finding:", json.dumps(g))
        print(f"VIOLATION property={prop} replay={first_replay}")
        rc = 1
    kinds = {k for (k, _) in REQUIRED.get(prop, [])}
    samples = []
    for path, _tag in traces:
        samples = sample_lines(path, 2, kinds)
        if samples:
            break
    for st in replays[:1]:
        samples.append({"tlc_generated_test_stats": {k: st[k] for k in ("model", "edges", "executed", "ok", "refused", "mismatches", "max_depth")}})
    ev = {
        "property_id": prop, "tier": tier, "seed": seed, "level": LEVEL,
        "coverage": {
            "states": sum(m["states"] for m in mcs), "transitions": sum(m["transitions"] for m in mcs),
            "traces_validated_against_impl": nruns + len(replays),
            "samples": samples,
            "models": mcs, "exhaustive": True,
            "tlc_generated_transitions_replayed_on_impl": sum(s["executed"] for s in replays),
            "replay_digest_mismatches": sum(s["mismatches"] for s in replays),
            "replay_by_action": {s["model"]: s["by_kind"] for s in replays},
            "replay_action_totals": action_totals,
            "trace_lines_validated": total_lines,
            "findings_this_property": len(mine), "findings_known": len(mine) - len(new),
            "findings_other_properties": others, "divergences_not_attributed": divergences,
            "checker_cmd": "tlc spec/MilkyWay.tla (MC_*.cfg) ; tlc spec/Trace.tla (TRACE=<ndjson>) ; harness/mwh tree|walk",
            **hook_extra,
        },
        "assumptions": ["the chain modules (bank, token factory, IBC transfer, ibc-hooks) behave as transcribed in spec/Chain.tla and harness/src/sim.rs",
                        "bounds of the MC_* configurations (small scope); TLC integers are 32 bit so amounts stay below 3000"],
        "wall_s": round(time.time() - t0, 1), "violations": len(new) + len(hook_viols),
    }
    os.makedirs(EVID, exist_ok=True)
    json.dump(ev, open(os.path.join(EVID, f"{prop}.json"), "w"), indent=1)
    log(f"[{prop}] {tier}: {'VIOLATION' if rc else 'held'}; {ev['coverage']['states']} model states, "
        f"{ev['coverage']['tlc_generated_transitions_replayed_on_impl']} transitions replayed, {total_lines} real steps validated, wall {ev['wall_s']}s")
    return rc


def main():
    a = sys.argv[1:]
    if len(a) < 2:
        print(__doc__)
        return 2
    prop = a[0]
    try:
        if prop == "--warm":
            # setup: generate the TLC test suites of the given tier once (pure functions of the spec)
            wd = os.path.join(WORK, "warm")
            os.makedirs(wd, exist_ok=True)
            names = sorted({n for pl in PLANS.values() for n in pl["emit"][a[1]]})
            for n in names:
                edges_for(n, wd)
            return 0
        if a[1] == "--replay":
            return replay(prop, a[2])
        tier = a[1]
        seed = int(os.environ.get("VERIF_SEED", "1"))
        return run_property(prop, tier, seed)
    except ToolError as e:
        log("TOOL ERROR:", e)
        return 2


if __name__ == "__main__":
    sys.exit(main())
