#!/bin/sh
# seed_confirm.sh <mutant-dir>: confirms a seeded change in a scratch worktree:
#  patch alone -> all existing tests pass; patch + demo -> the demo fails; demo alone -> everything passes
set -u
D="$1"; WT=/tmp/seed/verify
[ -d "$WT" ] || git -C /repo worktree add -q "$WT" HEAD
cd "$WT" && git checkout -q --detach $(git -C /repo rev-parse HEAD) && git checkout -q -- . && git clean -fdq -e target
export CARGO_TARGET_DIR=$WT/target CARGO_NET_OFFLINE=true
run() { cargo test --workspace --no-fail-fast --offline 2>&1 | grep -E "^test result" | awk '{p+=$4; f+=$6} END {print p" passed "f" failed"}'; }
git apply "$D/patch.diff" || { echo "patch does not apply"; exit 2; }
echo "patch only:   $(run)"
(cargo build -p staking --features miniwasm --offline >/dev/null 2>&1 && echo "miniwasm build ok") || echo "miniwasm build FAILED"
git apply "$D/demo.diff" || { echo "demo does not apply"; exit 2; }
echo "patch + demo: $(run)"
git apply -R "$D/patch.diff"
echo "demo only:    $(run)"
git checkout -q -- . && git clean -fdq -e target
