//! C17: sweeps of the read API in a given state. Every record carries the store contents read from RAW
//! storage (so the expected answer does not go through the queries) and the answer of the real query.
use crate::proj::raw_requests;
use crate::sim::World;
use serde_json::{json, Value};

fn raw_map_u64(w: &World, ns: &str) -> Vec<(u64, Value)> {
    let mut prefix = vec![0u8, ns.len() as u8];
    prefix.extend_from_slice(ns.as_bytes());
    let mut out = vec![];
    for (k, v) in w.store.m.iter() {
        if k.len() == prefix.len() + 8 && k.starts_with(&prefix) {
            let mut id = [0u8; 8];
            id.copy_from_slice(&k[prefix.len()..]);
            out.push((u64::from_be_bytes(id), serde_json::from_slice(v).unwrap_or(Value::Null)));
        }
    }
    out
}

fn opt(x: i64) -> Value {
    if x < 0 { Value::Null } else { json!(x) }
}

pub fn sweep(w: &World, users: &[String], out: &mut Vec<Value>) {
    let batches = raw_map_u64(w, "batches");
    let store: Vec<Value> = batches.iter().map(|(id, b)| json!([id, b["status"].as_str().unwrap_or("?")])).collect();
    let maxid = batches.iter().map(|(id, _)| *id).max().unwrap_or(0) as i64;
    let n = batches.len() as i64;
    let ids_of = |resp: &Value| -> (Vec<u64>, bool) {
        let mut ok = true;
        let ids = resp["batches"]
            .as_array()
            .map(|a| {
                a.iter()
                    .map(|b| {
                        let id = b["id"].as_u64().unwrap_or(0);
                        match batches.iter().find(|(i, _)| *i == id) {
                            Some((_, raw)) => {
                                ok &= b["batch_total_liquid_stake"] == raw["batch_total_liquid_stake"]
                                    && b["status"].as_str().map(|s| s.to_lowercase()) == raw["status"].as_str().map(|s| s.to_lowercase())
                                    && b["unstake_request_count"].as_u64() == Some(raw["unstake_requests_count"].as_u64().unwrap_or(0));
                            }
                            None => ok = false,
                        }
                        id
                    })
                    .collect()
            })
            .unwrap_or_else(|| {
                ok = false;
                vec![]
            });
        (ids, ok)
    };
    for sa in -1..=(maxid + 1) {
        for lim in -1..=(n + 1) {
            for st in ["", "Pending", "Submitted", "Received"] {
                let q = json!({"batches": {"start_after": opt(sa), "limit": opt(lim), "status": if st.is_empty() { Value::Null } else { json!(st) }}});
                let (ids, ok) = ids_of(&w.query(q));
                out.push(json!({"kind": "batches", "store": store, "start_after": sa, "limit": lim, "status": st, "resp": ids, "detail_ok": ok}));
            }
        }
    }
    // extreme arguments: a limit of u32::MAX (recorded as 2^31-1, TLC's largest integer: both exceed every store), a cursor
    // of u64::MAX (recorded likewise), a limit of zero
    for st in ["", "Pending", "Received"] {
        let stj = if st.is_empty() { Value::Null } else { json!(st) };
        let (ids, ok) = ids_of(&w.query(json!({"batches": {"start_after": Value::Null, "limit": u32::MAX, "status": stj}})));
        out.push(json!({"kind": "batches", "store": store, "start_after": -1, "limit": 2147483647i64, "status": st, "resp": ids, "detail_ok": ok}));
        let (ids, ok) = ids_of(&w.query(json!({"batches": {"start_after": u64::MAX, "limit": Value::Null, "status": stj}})));
        out.push(json!({"kind": "batches", "store": store, "start_after": 2147483647i64, "limit": -1, "status": st, "resp": ids, "detail_ok": ok}));
        let (ids, ok) = ids_of(&w.query(json!({"batches": {"start_after": Value::Null, "limit": 0, "status": stj}})));
        out.push(json!({"kind": "batches", "store": store, "start_after": -1, "limit": 0, "status": st, "resp": ids, "detail_ok": ok}));
    }
    for l in [vec![], vec![u64::MAX], vec![u64::MAX, 1]] {
        let (ids, ok) = ids_of(&w.query(json!({"batches_by_ids": {"ids": l}})));
        let rec: Vec<i64> = l.iter().map(|x| if *x == u64::MAX { 2147483647 } else { *x as i64 }).collect();
        out.push(json!({"kind": "by_ids", "store": store, "ids": rec, "resp": ids, "detail_ok": ok, "start_after": -1, "limit": -1, "status": ""}));
    }
    // id lists without repetition over 0..=maxid+1, up to length 3
    let universe: Vec<u64> = (0..=(maxid as u64 + 1)).collect();
    let mut lists: Vec<Vec<u64>> = vec![vec![]];
    for a in &universe {
        lists.push(vec![*a]);
        for b in &universe {
            if a != b {
                lists.push(vec![*a, *b]);
                if universe.len() <= 6 {
                    for c in &universe {
                        if c != a && c != b {
                            lists.push(vec![*a, *b, *c]);
                        }
                    }
                }
            }
        }
    }
    for l in lists {
        let (ids, ok) = ids_of(&w.query(json!({"batches_by_ids": {"ids": l}})));
        out.push(json!({"kind": "by_ids", "store": store, "ids": l, "resp": ids, "detail_ok": ok, "start_after": -1, "limit": -1, "status": ""}));
    }
    // paging chains
    for k in 1..=3i64 {
        for st in ["", "Pending", "Submitted", "Received"] {
            let mut all: Vec<u64> = vec![];
            let mut cursor: i64 = -1;
            let mut ok_all = true;
            for _ in 0..(n + 3) {
                let q = json!({"batches": {"start_after": opt(cursor), "limit": k, "status": if st.is_empty() { Value::Null } else { json!(st) }}});
                let (ids, ok) = ids_of(&w.query(q));
                ok_all &= ok;
                if ids.is_empty() {
                    break;
                }
                cursor = *ids.last().unwrap() as i64;
                all.extend(ids);
            }
            out.push(json!({"kind": "chain", "store": store, "page": k, "status": st, "resp": all, "detail_ok": ok_all, "start_after": -1, "limit": -1}));
        }
    }
    // in-flight transfer queue
    let pk = raw_map_u64(w, "inflight");
    let pstore: Vec<Value> = pk.iter().map(|(s, _)| json!([s, ""])).collect();
    let pmax = pk.iter().map(|(s, _)| *s).max().unwrap_or(0) as i64;
    let mut cursors: Vec<i64> = vec![-1, 0, pmax, pmax + 1];
    cursors.extend(pk.iter().map(|(s, _)| *s as i64));
    for sa in cursors {
        for lim in -1..=(pk.len() as i64 + 1) {
            let resp = w.query(json!({"ibc_queue": {"start_after": opt(sa), "limit": opt(lim)}}));
            let mut ok = true;
            let ids: Vec<u64> = resp["ibc_queue"]
                .as_array()
                .map(|a| {
                    a.iter()
                        .map(|p| {
                            let s = p["sequence"].as_u64().unwrap_or(0);
                            ok &= pk.iter().any(|(x, raw)| *x == s && raw["amount"] == p["amount"] && raw["receiver"] == p["receiver"] && raw["status"] == p["status"]);
                            s
                        })
                        .collect()
                })
                .unwrap_or_default();
            out.push(json!({"kind": "ibc_queue", "store": pstore, "start_after": sa, "limit": lim, "status": "", "resp": ids, "detail_ok": ok}));
        }
    }
    // ---- beyond the listed property: Batch{id}, PendingBatch{}, IbcReplyQueue{..}, the deprecated AllUnstakeRequests*
    for id in 0..=(maxid as u64 + 1) {
        let (ids, ok) = ids_of(&json!({"batches": [w.query(json!({"batch": {"id": id}}))]}));
        // an error answer (no such batch) projects to the empty list
        let exists = batches.iter().any(|(i, _)| *i == id);
        let ids: Vec<u64> = if exists { ids } else { ids.into_iter().filter(|_| false).collect() };
        out.push(json!({"kind": "batch", "store": store, "ids": [id], "resp": ids, "detail_ok": ok || !exists, "start_after": -1, "limit": -1, "status": ""}));
    }
    {
        let lower: Vec<Value> = batches.iter().map(|(id, b)| json!([id, b["status"].as_str().unwrap_or("?").to_lowercase()])).collect();
        let (ids, ok) = ids_of(&json!({"batches": [w.query(json!({"pending_batch": {}}))]}));
        out.push(json!({"kind": "pending", "store": lower, "ids": [], "resp": ids, "detail_ok": ok, "start_after": -1, "limit": -1, "status": ""}));
    }
    let wq = raw_map_u64(w, "ibc_waiting_for_reply");
    let wstore: Vec<Value> = wq.iter().map(|(s, _)| json!([s, ""])).collect();
    for sa in [-1i64, 0, 1] {
        for lim in [-1i64, 0, 1, 2] {
            let resp = w.query(json!({"ibc_reply_queue": {"start_after": opt(sa), "limit": opt(lim)}}));
            let n = resp["ibc_queue"].as_array().map(|a| a.len()).unwrap_or(usize::MAX);
            // the entries carry no id of their own: compared by count against the ids the specification selects
            let expect: Vec<u64> = wq.iter().map(|(s, _)| *s).filter(|s| sa < 0 || (*s as i64) > sa).take(if lim < 0 { usize::MAX } else { lim as usize }).collect();
            out.push(json!({"kind": "reply_queue", "store": wstore, "start_after": sa, "limit": lim, "status": "", "resp": if n == expect.len() { json!(expect) } else { json!([n]) }, "detail_ok": n != usize::MAX}));
        }
    }
    {
        let raw = raw_requests(w);
        let mut addrs: Vec<String> = raw.iter().map(|(_, u, _)| u.clone()).collect();
        addrs.sort();
        addrs.dedup();
        let rank = |u: &str| addrs.iter().position(|a| a == u).map(|p| p as i64 + 1).unwrap_or(0);
        let all: Vec<Value> = raw.iter().map(|(b, u, a)| json!([b, rank(u), *a as u64])).collect();
        for sa in [-1i64, 0, 1, 2] {
            for lim in -1..=(raw.len() as i64 + 1) {
                let r1 = w.query(json!({"all_unstake_requests": {"start_after": opt(sa), "limit": opt(lim)}}));
                let v1: Vec<Value> = r1.as_array().map(|a| a.iter().map(|x| json!([x["batch_id"], rank(x["user"].as_str().unwrap_or("")),
                    x["amount"].as_str().and_then(|s| s.parse::<u64>().ok()).unwrap_or(0)])).collect()).unwrap_or_else(|| vec![json!(["error"])]);
                out.push(json!({"kind": "all_requests", "reqs": all, "resp": v1, "start_after": sa, "limit": lim, "detail_ok": true, "store": [], "status": "", "user": ""}));
                let r2 = w.query(json!({"all_unstake_requests_v2": {"start_after": opt(sa), "limit": opt(lim)}}));
                let v2: Vec<Value> = r2.as_array().map(|a| a.iter().map(|x| json!([x[1], rank(x[0].as_str().unwrap_or("")),
                    x[2].as_str().and_then(|s| s.parse::<u64>().ok()).unwrap_or(0)])).collect()).unwrap_or_else(|| vec![json!(["error"])]);
                out.push(json!({"kind": "all_requests_v2", "reqs": all, "resp": v2, "start_after": sa, "limit": lim, "detail_ok": true, "store": [], "status": "", "user": ""}));
            }
        }
    }
    // per-user request index against the primary map
    let reqs: Vec<Value> = raw_requests(w).iter().map(|(b, u, a)| json!([b, w.names.nm(u), *a as u64])).collect();
    for u in users {
        let addr = w.names.ad(u);
        let resp = w.query(json!({"unstake_requests": {"user": addr}}));
        let r: Vec<Value> = resp
            .as_array()
            .map(|a| a.iter().map(|x| json!([x["batch_id"], x["amount"].as_str().and_then(|s| s.parse::<u64>().ok()).unwrap_or(0)])).collect())
            .unwrap_or_default();
        let users_ok = resp.as_array().map(|a| a.iter().all(|x| x["user"] == json!(addr))).unwrap_or(false);
        out.push(json!({"kind": "requests", "reqs": reqs, "user": u, "resp": r, "detail_ok": users_ok, "store": [], "start_after": -1, "limit": -1, "status": ""}));
    }
}
