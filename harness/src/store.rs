//! Storage, Api and address helpers of the chain simulator.
use bech32::{FromBase32, ToBase32, Variant};
use cosmwasm_std::{
    Addr, Api, CanonicalAddr, Order, Record, RecoverPubkeyError, StdError, StdResult, Storage,
    VerificationError,
};
use sha2::{Digest, Sha256};
use std::collections::BTreeMap;

#[derive(Clone, Default, Debug, PartialEq)]
pub struct MemStore {
    pub m: BTreeMap<Vec<u8>, Vec<u8>>,
}

impl Storage for MemStore {
    fn get(&self, key: &[u8]) -> Option<Vec<u8>> {
        self.m.get(key).cloned()
    }
    fn range<'a>(
        &'a self,
        start: Option<&[u8]>,
        end: Option<&[u8]>,
        order: Order,
    ) -> Box<dyn Iterator<Item = Record> + 'a> {
        use std::ops::Bound;
        let lo = match start {
            Some(s) => Bound::Included(s.to_vec()),
            None => Bound::Unbounded,
        };
        let hi = match end {
            Some(e) => Bound::Excluded(e.to_vec()),
            None => Bound::Unbounded,
        };
        if let (Some(s), Some(e)) = (start, end) {
            if s >= e {
                return Box::new(std::iter::empty());
            }
        }
        let it = self.m.range((lo, hi)).map(|(k, v)| (k.clone(), v.clone()));
        match order {
            Order::Ascending => Box::new(it),
            Order::Descending => Box::new(it.rev()),
        }
    }
    fn set(&mut self, key: &[u8], value: &[u8]) {
        self.m.insert(key.to_vec(), value.to_vec());
    }
    fn remove(&mut self, key: &[u8]) {
        self.m.remove(key);
    }
}

/// Api of a chain whose bech32 account prefix is `prefix`: `addr_validate` accepts exactly the
/// lower-case bech32 (not bech32m) strings under that prefix with a 20- or 32-byte payload —
/// what wasmd does; cosmwasm's MockApi only checks length and case.
#[derive(Clone)]
pub struct ChainApi {
    pub prefix: String,
}

impl Api for ChainApi {
    fn addr_validate(&self, human: &str) -> StdResult<Addr> {
        let c = self.addr_canonicalize(human)?;
        let h = self.addr_humanize(&c)?;
        if h.as_str() != human {
            return Err(StdError::generic_err("address not normalized"));
        }
        Ok(h)
    }
    fn addr_canonicalize(&self, human: &str) -> StdResult<CanonicalAddr> {
        let (hrp, data, var) =
            bech32::decode(human).map_err(|e| StdError::generic_err(format!("bech32: {e}")))?;
        if var != Variant::Bech32 {
            return Err(StdError::generic_err("bech32m not accepted"));
        }
        if hrp != self.prefix {
            return Err(StdError::generic_err("wrong prefix"));
        }
        let bytes = Vec::<u8>::from_base32(&data)
            .map_err(|e| StdError::generic_err(format!("bech32 data: {e}")))?;
        if bytes.len() != 20 && bytes.len() != 32 {
            return Err(StdError::generic_err("invalid address length"));
        }
        Ok(CanonicalAddr::from(bytes))
    }
    fn addr_humanize(&self, canonical: &CanonicalAddr) -> StdResult<Addr> {
        let s = bech32::encode(&self.prefix, canonical.as_slice().to_base32(), Variant::Bech32)
            .map_err(|e| StdError::generic_err(format!("bech32: {e}")))?;
        Ok(Addr::unchecked(s))
    }
    fn secp256k1_verify(&self, _: &[u8], _: &[u8], _: &[u8]) -> Result<bool, VerificationError> {
        Err(VerificationError::unknown_err(0))
    }
    fn secp256k1_recover_pubkey(
        &self,
        _: &[u8],
        _: &[u8],
        _: u8,
    ) -> Result<Vec<u8>, RecoverPubkeyError> {
        Err(RecoverPubkeyError::unknown_err(0))
    }
    fn ed25519_verify(&self, _: &[u8], _: &[u8], _: &[u8]) -> Result<bool, VerificationError> {
        Err(VerificationError::unknown_err(0))
    }
    fn ed25519_batch_verify(
        &self,
        _: &[&[u8]],
        _: &[&[u8]],
        _: &[&[u8]],
    ) -> Result<bool, VerificationError> {
        Err(VerificationError::unknown_err(0))
    }
    fn debug(&self, _message: &str) {}
}

pub fn mk_addr(prefix: &str, seed: &str, len: usize) -> String {
    let mut h = Sha256::new();
    h.update(b"mwh-addr/");
    h.update(seed.as_bytes());
    let d = h.finalize();
    bech32::encode(prefix, d[..len].to_vec().to_base32(), Variant::Bech32).unwrap()
}

/// Independent transcription of the Osmosis ibc-hooks keeper:
///   senderStr  = fmt.Sprintf("%s/%s", channel, originalSender)
///   hash       = address.Hash("ibc-wasm-hook-intermediary", []byte(senderStr))
///              = sha256( sha256(typ) || key )
///   return       Bech32ifyAddressBytes(prefix, hash)
pub fn hook_account(channel: &str, original_sender: &str, prefix: &str) -> String {
    let th = Sha256::digest(b"ibc-wasm-hook-intermediary");
    let mut h = Sha256::new();
    h.update(th);
    h.update(channel.as_bytes());
    h.update(b"/");
    h.update(original_sender.as_bytes());
    let d = h.finalize();
    bech32::encode(prefix, d.to_vec().to_base32(), Variant::Bech32).unwrap()
}

/// Classification of a string as an address under a prefix (what "checksum-valid bech32 under
/// the section's prefix" means in C14): any bech32 / bech32m string whose hrp equals `prefix`.
pub fn is_bech32_with_prefix(s: &str, prefix: &str) -> bool {
    match bech32::decode(s) {
        Ok((hrp, _, _)) => hrp == prefix,
        Err(_) => false,
    }
}

pub fn payload_len(s: &str) -> Option<usize> {
    let (_, data, _) = bech32::decode(s).ok()?;
    Vec::<u8>::from_base32(&data).ok().map(|v| v.len())
}
