//! Chain simulator around the REAL staking-contract entry points: bank, token factory, IBC
//! transfer module with callbacks, ibc-hooks, an oracle stub and the native chain.
//! It is the concrete counterpart of spec/Chain.tla.
use crate::pb;
use crate::store::{hook_account, mk_addr, ChainApi, MemStore};
use cosmwasm_std::testing::MockQuerier;
use cosmwasm_std::{
    from_json, Addr, BankMsg, Binary, BlockInfo, Coin, ContractInfo, CosmosMsg, Deps, DepsMut,
    Env, MessageInfo, QuerierWrapper, Reply, ReplyOn, Response, SubMsg, SubMsgResponse,
    SubMsgResult, Timestamp, TransactionInfo, Uint128,
};
use serde_json::{json, Value};
use std::collections::BTreeMap;
use std::panic::{catch_unwind, AssertUnwindSafe};

pub const IBC_DENOM: &str = "ibc/C3E53D20BC7A4CC993B17C7971F8ECD06A433C10B6A96F4C4C3714F0624C56DA";

#[derive(Clone, Debug, PartialEq)]
pub struct Packet {
    pub channel: String,
    pub seq: u64,
    pub sender: String,
    pub receiver: String,
    pub denom: String,
    pub amount: u128,
    pub callback: Option<String>,
}

#[derive(Clone, Debug, Default, PartialEq)]
pub struct Ledgers {
    pub swept: u128,
    pub radj_n: i128,
    pub radj_l: i128,
    pub paid: BTreeMap<u64, u128>,
    pub wdl: BTreeMap<u64, u128>,
    pub deliv: u128,
    pub honest: bool,
    pub forced: bool,
    pub repointed: bool,
}

#[derive(Clone)]
pub struct Names {
    pub a2n: BTreeMap<String, String>,
    pub n2a: BTreeMap<String, String>,
}
impl Names {
    pub fn new() -> Self {
        Names { a2n: BTreeMap::new(), n2a: BTreeMap::new() }
    }
    pub fn add(&mut self, name: &str, addr: &str) {
        self.a2n.insert(addr.to_string(), name.to_string());
        self.n2a.insert(name.to_string(), addr.to_string());
    }
    pub fn nm(&self, addr: &str) -> String {
        self.a2n.get(addr).cloned().unwrap_or_else(|| addr.to_string())
    }
    pub fn ad(&self, name: &str) -> String {
        self.n2a.get(name).cloned().unwrap_or_else(|| name.to_string())
    }
}

#[derive(Clone)]
pub struct World {
    pub store: MemStore,
    pub bank: BTreeMap<(String, String), u128>,
    pub supply: BTreeMap<String, u128>,
    pub tf_admin: BTreeMap<String, String>,
    pub ibc_next: u64,
    pub fly: BTreeMap<u64, Packet>,
    pub nat_bal: BTreeMap<String, u128>,
    pub nat_lst: BTreeMap<String, u128>,
    pub led: Ledgers,
    pub now_ns: u64,
    pub height: u64,
    pub tx_index: u32,
    /// the current message runs outside a transaction (env.transaction = None)
    pub notx: bool,
    pub contract: String,
    pub prefix: String,
    pub names: std::sync::Arc<Names>,
    pub instantiated: bool,
    /// the treasury contract (its address is the principal named "treasury")
    pub tstore: MemStore,
    pub t_inst: bool,
    /// address of the contract whose messages are being dispatched
    pub cur: String,
}

#[derive(Clone, Debug, Default)]
pub struct TxOut {
    pub ok: bool,
    pub err: String,
    pub panic: bool,
    pub msgs: Vec<Value>,
    pub attrs: Vec<(String, String)>,
}

#[derive(Clone, Debug, Default)]
pub struct TxEnv {
    /// indices (0-based, in dispatch order within the transaction) of IBC transfers the
    /// chain refuses to submit
    pub ibc_fail: Vec<usize>,
}

thread_local! {
    static LAST_PANIC_AT: std::cell::RefCell<String> = std::cell::RefCell::new(String::new());
}
/// panics of the code under test are data: no backtrace on stderr, but the source location is kept
pub fn silence_panics() {
    std::panic::set_hook(Box::new(|info| {
        let at = info
            .location()
            .map(|l| {
                let f = l.file();
                // keep the path from the crate name on (registry / repo prefixes differ between machines)
                let short = f.rsplit("/src/").next().unwrap_or(f);
                let krate = f.rsplit("/src/").nth(1).and_then(|p| p.rsplit('/').next()).unwrap_or("");
                if std::env::var("MWH_PANIC_LINE").is_ok() { format!("{krate}/src/{short}:{}", l.line()) } else { format!("{krate}/src/{short}") }
            })
            .unwrap_or_default();
        if info.location().map(|l| l.file().starts_with("src/")).unwrap_or(false) {
            // a bug of the harness itself, not of the code under test: say where
            eprintln!("harness panic: {info}");
        }
        LAST_PANIC_AT.with(|c| *c.borrow_mut() = at);
    }));
}
pub fn last_panic_at() -> String {
    LAST_PANIC_AT.with(|c| c.borrow().clone())
}
fn panic_text(e: Box<dyn std::any::Any + Send>) -> String {
    let msg = if let Some(s) = e.downcast_ref::<String>() {
        s.clone()
    } else if let Some(s) = e.downcast_ref::<&str>() {
        s.to_string()
    } else {
        "panic".to_string()
    };
    format!("{msg} @ {}", last_panic_at())
}

fn u128_of(s: &str) -> Result<u128, String> {
    s.parse::<u128>().map_err(|_| format!("bad amount {s:?}"))
}

pub fn num(v: u128) -> Value {
    if v <= u64::MAX as u128 {
        json!(v as u64)
    } else {
        json!(v.to_string())
    }
}
pub fn inum(v: i128) -> Value {
    if v >= i64::MIN as i128 && v <= i64::MAX as i128 {
        json!(v as i64)
    } else {
        json!(v.to_string())
    }
}

impl World {
    pub fn new(prefix: &str) -> World {
        let contract = mk_addr(prefix, "staking-contract", 32);
        let mut names = Names::new();
        names.add("contract", &contract);
        names.add("IBCTIA", IBC_DENOM);
        World {
            store: MemStore::default(),
            bank: BTreeMap::new(),
            supply: BTreeMap::new(),
            tf_admin: BTreeMap::new(),
            ibc_next: 1,
            fly: BTreeMap::new(),
            nat_bal: BTreeMap::new(),
            nat_lst: BTreeMap::new(),
            led: Ledgers { honest: true, ..Default::default() },
            now_ns: 1_700_000_000u64 * 1_000_000_000,
            height: 100,
            tx_index: 0,
            notx: false,
            contract,
            prefix: prefix.to_string(),
            names: std::sync::Arc::new(names),
            instantiated: false,
            tstore: MemStore::default(),
            t_inst: false,
            cur: String::new(),
        }
    }

    pub fn now_s(&self) -> u64 {
        self.now_ns / 1_000_000_000
    }

    pub fn env(&self) -> Env {
        Env {
            block: BlockInfo {
                height: self.height,
                time: Timestamp::from_nanos(self.now_ns),
                chain_id: "sim-1".into(),
            },
            // (messages run by a governance proposal or a scheduler carry no transaction info)
            transaction: if self.notx { None } else { Some(TransactionInfo { index: self.tx_index }) },
            contract: ContractInfo { address: Addr::unchecked(&self.contract) },
        }
    }

    pub fn bal(&self, a: &str, d: &str) -> u128 {
        *self.bank.get(&(a.to_string(), d.to_string())).unwrap_or(&0)
    }
    pub fn credit(&mut self, a: &str, d: &str, x: u128) {
        *self.bank.entry((a.to_string(), d.to_string())).or_insert(0) += x;
    }
    pub fn debit(&mut self, a: &str, d: &str, x: u128) -> Result<(), String> {
        let e = self.bank.entry((a.to_string(), d.to_string())).or_insert(0);
        if *e < x {
            return Err(format!("insufficient funds: {a} has {} {d}, needs {x}", *e));
        }
        *e -= x;
        Ok(())
    }

    // ---------------------------------------------------------------- contract calls
    fn with_deps_mut<T>(
        &mut self,
        f: impl FnOnce(DepsMut, Env) -> T,
    ) -> Result<T, String> {
        let api = ChainApi { prefix: self.prefix.clone() };
        let q = MockQuerier::default();
        let env = self.env();
        let store = &mut self.store;
        let r = catch_unwind(AssertUnwindSafe(|| {
            let deps = DepsMut { storage: store, api: &api, querier: QuerierWrapper::new(&q) };
            f(deps, env)
        }));
        r.map_err(panic_text)
    }

    pub fn query_raw(&self, msg: &Value) -> Result<Result<Value, String>, String> {
        let api = ChainApi { prefix: self.prefix.clone() };
        let q = MockQuerier::default();
        let env = self.env();
        let text = msg.to_string();
        let r = catch_unwind(AssertUnwindSafe(|| {
            let deps = Deps { storage: &self.store, api: &api, querier: QuerierWrapper::new(&q) };
            let m: staking::msg::QueryMsg = match from_json(text.as_bytes()) {
                Ok(m) => m,
                Err(e) => return Err(format!("parse: {e}")),
            };
            match staking::contract::query(deps, env, m) {
                Ok(b) => serde_json::from_slice::<Value>(b.as_slice()).map_err(|e| e.to_string()),
                Err(e) => Err(e.to_string()),
            }
        }));
        r.map_err(panic_text)
    }

    pub fn query(&self, msg: Value) -> Value {
        match self.query_raw(&msg) {
            Ok(Ok(v)) => v,
            Ok(Err(e)) => json!({"__err": e}),
            Err(_) => json!({"__panic": true}),
        }
    }

    /// One transaction: funds move, the entry point runs, every returned message and reply is
    /// executed; commit or roll back as a whole.
    pub fn tx_execute(&mut self, sender: &str, msg: &Value, funds: &[(String, u128)], tenv: &TxEnv) -> TxOut {
        let snap = self.clone();
        self.tx_index += 1;
        let mut out = TxOut::default();
        let r = self.tx_execute_inner(sender, msg, funds, tenv, &mut out);
        match r {
            Ok(()) => {
                out.ok = true;
            }
            Err((e, panicked)) => {
                let (names, txi) = (self.names.clone(), self.tx_index);
                *self = snap;
                self.names = names;
                self.tx_index = txi;
                out.ok = false;
                out.err = e;
                out.panic = panicked;
                out.msgs.clear();
            }
        }
        out
    }

    fn tx_execute_inner(
        &mut self,
        sender: &str,
        msg: &Value,
        funds: &[(String, u128)],
        tenv: &TxEnv,
        out: &mut TxOut,
    ) -> Result<(), (String, bool)> {
        let contract = self.contract.clone();
        self.cur = contract.clone();
        let mut coins: Vec<Coin> = vec![];
        for (d, x) in funds {
            self.debit(sender, d, *x).map_err(|e| (e, false))?;
            self.credit(&contract, d, *x);
            coins.push(Coin { denom: d.clone(), amount: Uint128::new(*x) });
        }
        // the SDK sorts coins by denom
        coins.sort_by(|a, b| a.denom.cmp(&b.denom));
        let info = MessageInfo { sender: Addr::unchecked(sender), funds: coins };
        let text = msg.to_string();
        let parsed: Result<staking::msg::ExecuteMsg, _> = from_json(text.as_bytes());
        let m = match parsed {
            Ok(m) => m,
            Err(e) => return Err((format!("parse: {e}"), false)),
        };
        let r = self.with_deps_mut(|deps, env| staking::contract::execute(deps, env, info, m));
        let resp = match r {
            Err(p) => return Err((format!("panic: {p}"), true)),
            Ok(Err(e)) => return Err((e.to_string(), false)),
            Ok(Ok(resp)) => resp,
        };
        let mut ibc_count = 0usize;
        self.run_response(resp, tenv, &mut ibc_count, out)
    }

    pub fn tx_sudo(&mut self, msg: &Value) -> TxOut {
        self.cur = self.contract.clone();
        let snap = self.clone();
        self.tx_index += 1;
        let mut out = TxOut::default();
        let text = msg.to_string();
        let parsed: Result<staking::msg::SudoMsg, _> = from_json(text.as_bytes());
        let r = match parsed {
            Err(e) => Err((format!("parse: {e}"), false)),
            Ok(m) => match self.with_deps_mut(|deps, env| staking::contract::sudo(deps, env, m)) {
                Err(p) => Err((format!("panic: {p}"), true)),
                Ok(Err(e)) => Err((e.to_string(), false)),
                Ok(Ok(resp)) => {
                    let mut c = 0usize;
                    self.run_response(resp, &TxEnv::default(), &mut c, &mut out)
                }
            },
        };
        match r {
            Ok(()) => out.ok = true,
            Err((e, p)) => {
                let (names, txi) = (self.names.clone(), self.tx_index);
                *self = snap;
                self.names = names;
                self.tx_index = txi;
                out.ok = false;
                out.err = e;
                out.panic = p;
                out.msgs.clear();
            }
        }
        out
    }

    pub fn tx_instantiate(&mut self, sender: &str, msg: &Value) -> TxOut {
        self.cur = self.contract.clone();
        let snap = self.clone();
        self.tx_index += 1;
        let mut out = TxOut::default();
        let text = msg.to_string();
        let parsed: Result<staking::msg::InstantiateMsg, _> = from_json(text.as_bytes());
        let info = MessageInfo { sender: Addr::unchecked(sender), funds: vec![] };
        let r = match parsed {
            Err(e) => Err((format!("parse: {e}"), false)),
            Ok(m) => match self
                .with_deps_mut(|deps, env| staking::contract::instantiate(deps, env, info, m))
            {
                Err(p) => Err((format!("panic: {p}"), true)),
                Ok(Err(e)) => Err((e.to_string(), false)),
                Ok(Ok(resp)) => {
                    let mut c = 0usize;
                    self.run_response(resp, &TxEnv::default(), &mut c, &mut out)
                }
            },
        };
        match r {
            Ok(()) => {
                out.ok = true;
                self.instantiated = true;
            }
            Err((e, p)) => {
                let (names, txi) = (self.names.clone(), self.tx_index);
                *self = snap;
                self.names = names;
                self.tx_index = txi;
                out.ok = false;
                out.err = e;
                out.panic = p;
                out.msgs.clear();
            }
        }
        out
    }

    pub fn tx_migrate(&mut self, msg: &Value) -> TxOut {
        self.cur = self.contract.clone();
        let snap = self.clone();
        self.tx_index += 1;
        let mut out = TxOut::default();
        let text = msg.to_string();
        let parsed: Result<staking::msg::MigrateMsg, _> = from_json(text.as_bytes());
        let r = match parsed {
            Err(e) => Err((format!("parse: {e}"), false)),
            Ok(m) => match self.with_deps_mut(|deps, env| staking::contract::migrate(deps, env, m)) {
                Err(p) => Err((format!("panic: {p}"), true)),
                Ok(Err(e)) => Err((e.to_string(), false)),
                Ok(Ok(resp)) => {
                    let mut c = 0usize;
                    self.run_response(resp, &TxEnv::default(), &mut c, &mut out)
                }
            },
        };
        match r {
            Ok(()) => out.ok = true,
            Err((e, p)) => {
                let (names, txi) = (self.names.clone(), self.tx_index);
                *self = snap;
                self.names = names;
                self.tx_index = txi;
                out.ok = false;
                out.err = e;
                out.panic = p;
                out.msgs.clear();
            }
        }
        out
    }

    fn run_response(
        &mut self,
        resp: Response,
        tenv: &TxEnv,
        ibc_count: &mut usize,
        out: &mut TxOut,
    ) -> Result<(), (String, bool)> {
        for a in &resp.attributes {
            out.attrs.push((a.key.clone(), a.value.clone()));
        }
        for sm in resp.messages {
            self.run_submsg(sm, tenv, ibc_count, out)?;
        }
        Ok(())
    }

    fn run_submsg(
        &mut self,
        sm: SubMsg,
        tenv: &TxEnv,
        ibc_count: &mut usize,
        out: &mut TxOut,
    ) -> Result<(), (String, bool)> {
        let before = self.clone();
        let n_msgs = out.msgs.len();
        let r = self.dispatch(&sm.msg, tenv, ibc_count, out);
        let (want_reply, result) = match &r {
            Ok(data) => (
                matches!(sm.reply_on, ReplyOn::Always | ReplyOn::Success),
                SubMsgResult::Ok(SubMsgResponse {
                    events: vec![],
                    data: data.clone().map(Binary::from),
                }),
            ),
            Err(e) => {
                // the sub-message's own effects are reverted
                let names = self.names.clone();
                let txi = self.tx_index;
                *self = before;
                self.names = names;
                self.tx_index = txi;
                out.msgs.truncate(n_msgs);
                out.msgs.push(json!({"k": "failed_submsg", "err": e}));
                (matches!(sm.reply_on, ReplyOn::Always | ReplyOn::Error), SubMsgResult::Err(e.clone()))
            }
        };
        if !want_reply {
            return match r {
                Ok(_) => Ok(()),
                Err(e) => Err((format!("submessage failed: {e}"), false)),
            };
        }
        let reply = Reply { id: sm.id, result };
        let rr = self.with_deps_mut(|deps, env| staking::contract::reply(deps, env, reply));
        match rr {
            Err(p) => Err((format!("panic in reply: {p}"), true)),
            Ok(Err(e)) => Err((format!("reply: {e}"), false)),
            Ok(Ok(resp2)) => self.run_response(resp2, tenv, ibc_count, out),
        }
    }

    /// Executes one message emitted by the contract. Returns the message response data.
    fn dispatch(
        &mut self,
        msg: &CosmosMsg,
        tenv: &TxEnv,
        ibc_count: &mut usize,
        out: &mut TxOut,
    ) -> Result<Option<Vec<u8>>, String> {
        let contract = self.cur.clone();
        match msg {
            CosmosMsg::Bank(BankMsg::Send { to_address, amount }) => {
                for c in amount {
                    self.debit(&contract, &c.denom, c.amount.u128())?;
                    self.credit(to_address, &c.denom, c.amount.u128());
                    out.msgs.push(json!({"k":"send","via":"bank","from":self.names.nm(&contract),"to":self.names.nm(to_address),
                        "den": self.names.nm(&c.denom), "amt": num(c.amount.u128())}));
                }
                Ok(None)
            }
            CosmosMsg::Stargate { type_url, value } => {
                self.dispatch_stargate(type_url, value.as_slice(), tenv, ibc_count, out)
            }
            other => Err(format!("unsupported message {other:?}")),
        }
    }

    fn dispatch_stargate(
        &mut self,
        url: &str,
        bytes: &[u8],
        tenv: &TxEnv,
        ibc_count: &mut usize,
        out: &mut TxOut,
    ) -> Result<Option<Vec<u8>>, String> {
        let n0 = out.msgs.len();
        let r = self.dispatch_stargate_inner(url, bytes, tenv, ibc_count, out);
        // C19 wire-level records: the raw bytes of token-factory messages (only when asked for)
        if std::env::var("MWH_RAW").is_ok() {
            for m in out.msgs.iter_mut().skip(n0) {
                if m["k"].as_str().map(|k| k.starts_with("tf_")).unwrap_or(false) {
                    m["raw"] = json!(bytes);
                    m["contract_raw"] = json!(self.contract.as_bytes());
                }
            }
        }
        r
    }

    fn dispatch_stargate_inner(
        &mut self,
        url: &str,
        bytes: &[u8],
        tenv: &TxEnv,
        ibc_count: &mut usize,
        out: &mut TxOut,
    ) -> Result<Option<Vec<u8>>, String> {
        let contract = self.cur.clone();
        let fs = pb::parse(bytes)?;
        match url {
            "/cosmos.bank.v1beta1.MsgSend" => {
                pb::only_tags(&fs, &[1, 2, 3])?;
                let from = pb::get_str(&fs, 1)?;
                let to = pb::get_str(&fs, 2)?;
                if from != contract {
                    return Err("MsgSend: signer is not the contract".into());
                }
                let coins = pb::get_all_bytes(&fs, 3)?;
                let mut enc = pb::Enc::new();
                enc.string(1, &from).string(2, &to);
                for cb in &coins {
                    let c = pb::parse_coin(cb)?;
                    enc.msg(3, &pb::enc_coin(&c));
                    let x = u128_of(&c.amount)?;
                    self.debit(&from, &c.denom, x)?;
                    self.credit(&to, &c.denom, x);
                    out.msgs.push(json!({"k":"send","via":"stargate","from":self.names.nm(&from),"to":self.names.nm(&to),
                        "den": self.names.nm(&c.denom), "amt": num(x), "canon": true}));
                }
                let canon = enc.done() == bytes;
                if let Some(Value::Object(o)) = out.msgs.last_mut() {
                    o.insert("canon".into(), json!(canon));
                }
                Ok(None)
            }
            "/ibc.applications.transfer.v1.MsgTransfer" => {
                pb::only_tags(&fs, &[1, 2, 3, 4, 5, 6, 7, 8])?;
                let port = pb::get_str(&fs, 1)?;
                let channel = pb::get_str(&fs, 2)?;
                let token = pb::parse_coin(&pb::get_bytes(&fs, 3)?)?;
                let sender = pb::get_str(&fs, 4)?;
                let receiver = pb::get_str(&fs, 5)?;
                let has_height = pb::has(&fs, 6);
                let tmo = pb::get_u64(&fs, 7)?;
                let memo = pb::get_str(&fs, 8)?;
                if sender != contract {
                    return Err("MsgTransfer: signer is not the contract".into());
                }
                if port != "transfer" {
                    return Err("MsgTransfer: unknown port".into());
                }
                let idx = *ibc_count;
                *ibc_count += 1;
                let x = u128_of(&token.amount)?;
                let cb = serde_json::from_str::<Value>(&memo)
                    .ok()
                    .and_then(|v| v.get("ibc_callback").and_then(|c| c.as_str().map(|s| s.to_string())));
                let mut enc = pb::Enc::new();
                enc.string(1, &port).string(2, &channel).msg(3, &pb::enc_coin(&token)).string(4, &sender).string(5, &receiver);
                if has_height {
                    enc.msg(6, &pb::get_bytes(&fs, 6)?);
                }
                enc.uint(7, tmo).string(8, &memo);
                let canon = enc.done() == bytes;
                let tmo_delta: i64 = (tmo as i128 - self.now_ns as i128).div_euclid(1_000_000_000) as i64;
                let mut rec = json!({"k":"ibc","channel":channel,"den":self.names.nm(&token.denom),"amt":num(x),
                    "rcv": self.names.nm(&receiver), "cb": cb.as_deref().map(|c| self.names.nm(c)).unwrap_or_default(),
                    "tmo": tmo_delta, "height_tmo": has_height, "canon": canon, "seq": 0});
                if tenv.ibc_fail.contains(&idx) {
                    return Err("ibc transfer refused by the chain (injected)".into());
                }
                if tmo == 0 && !has_height {
                    return Err("MsgTransfer: no timeout".into());
                }
                if x == 0 {
                    return Err("MsgTransfer: zero amount".into());
                }
                self.debit(&sender, &token.denom, x)?;
                let seq = self.ibc_next;
                self.ibc_next += 1;
                self.fly.insert(
                    seq,
                    Packet { channel, seq, sender, receiver, denom: token.denom, amount: x, callback: cb },
                );
                rec["seq"] = json!(seq);
                out.msgs.push(rec);
                let data = pb::Enc::new().uint(1, seq).done();
                Ok(Some(data))
            }
            "/cosmwasm.wasm.v1.MsgExecuteContract" => {
                pb::only_tags(&fs, &[1, 2, 3, 5])?;
                let sender = pb::get_str(&fs, 1)?;
                let target = pb::get_str(&fs, 2)?;
                let m = pb::get_bytes(&fs, 3)?;
                let funds = pb::get_all_bytes(&fs, 5)?;
                if sender != contract {
                    return Err("MsgExecuteContract: signer is not the contract".into());
                }
                if !funds.is_empty() {
                    return Err("MsgExecuteContract with funds: not modelled".into());
                }
                let v: Value = serde_json::from_slice(&m).map_err(|e| format!("oracle msg: {e}"))?;
                let pr = v.get("post_rates").ok_or("oracle: not post_rates")?;
                let canon = pb::Enc::new().string(1, &sender).string(2, &target).bytes(3, &m).done() == bytes;
                out.msgs.push(json!({"k":"oracle","to":self.names.nm(&target),
                    "den": self.names.nm(pr.get("denom").and_then(|x| x.as_str()).unwrap_or("")),
                    "red": pr.get("redemption_rate").and_then(|x| x.as_str()).unwrap_or("?"),
                    "pur": pr.get("purchase_rate").and_then(|x| x.as_str()).unwrap_or("?"),
                    "canon": canon}));
                Ok(None)
            }
            "/osmosis.tokenfactory.v1beta1.MsgCreateDenom" | "/miniwasm.tokenfactory.v1.MsgCreateDenom" => {
                pb::only_tags(&fs, &[1, 2])?;
                let sender = pb::get_str(&fs, 1)?;
                let sub = pb::get_str(&fs, 2)?;
                if sender != contract {
                    return Err("MsgCreateDenom: signer is not the contract".into());
                }
                let denom = format!("factory/{sender}/{sub}");
                if self.tf_admin.contains_key(&denom) {
                    return Err("denom exists".into());
                }
                if sub.is_empty() || sub.len() > 44 {
                    return Err("bad subdenom".into());
                }
                self.tf_admin.insert(denom.clone(), sender.clone());
                self.supply.insert(denom.clone(), 0);
                std::sync::Arc::make_mut(&mut self.names).add("LST", &denom);
                let canon = pb::Enc::new().string(1, &sender).string(2, &sub).done() == bytes;
                out.msgs.push(json!({"k":"tf_create","url":url,"sender":self.names.nm(&sender),"sub":sub,"denom":denom,"canon":canon}));
                Ok(None)
            }
            "/osmosis.tokenfactory.v1beta1.MsgMint" | "/miniwasm.tokenfactory.v1.MsgMint" => {
                pb::only_tags(&fs, &[1, 2, 3])?;
                let sender = pb::get_str(&fs, 1)?;
                let coin = pb::parse_coin(&pb::get_bytes(&fs, 2)?)?;
                let to = pb::get_str(&fs, 3)?;
                if sender != contract {
                    return Err("MsgMint: signer is not the contract".into());
                }
                if self.tf_admin.get(&coin.denom) != Some(&sender) {
                    return Err("MsgMint: sender is not the denom admin".into());
                }
                let x = u128_of(&coin.amount)?;
                let to_eff = if to.is_empty() { sender.clone() } else { to.clone() };
                *self.supply.entry(coin.denom.clone()).or_insert(0) += x;
                self.credit(&to_eff, &coin.denom, x);
                let canon = pb::Enc::new().string(1, &sender).msg(2, &pb::enc_coin(&coin)).string(3, &to).done() == bytes;
                out.msgs.push(json!({"k":"tf_mint","url":url,"sender":self.names.nm(&sender),"den":self.names.nm(&coin.denom),
                    "amt":num(x),"to":self.names.nm(&to_eff),"canon":canon}));
                Ok(None)
            }
            "/osmosis.tokenfactory.v1beta1.MsgBurn" | "/miniwasm.tokenfactory.v1.MsgBurn" => {
                let mini = url.starts_with("/miniwasm.");
                pb::only_tags(&fs, if mini { &[1, 2] } else { &[1, 2, 3] })?;
                let sender = pb::get_str(&fs, 1)?;
                let coin = pb::parse_coin(&pb::get_bytes(&fs, 2)?)?;
                let from = if mini { String::new() } else { pb::get_str(&fs, 3)? };
                if sender != contract {
                    return Err("MsgBurn: signer is not the contract".into());
                }
                if self.tf_admin.get(&coin.denom) != Some(&sender) {
                    return Err("MsgBurn: sender is not the denom admin".into());
                }
                let x = u128_of(&coin.amount)?;
                let from_eff = if from.is_empty() { sender.clone() } else { from.clone() };
                self.debit(&from_eff, &coin.denom, x)?;
                let s = self.supply.entry(coin.denom.clone()).or_insert(0);
                if *s < x {
                    return Err("burn exceeds supply".into());
                }
                *s -= x;
                let mut enc = pb::Enc::new();
                enc.string(1, &sender).msg(2, &pb::enc_coin(&coin));
                if !mini {
                    enc.string(3, &from);
                }
                let canon = enc.done() == bytes;
                out.msgs.push(json!({"k":"tf_burn","url":url,"sender":self.names.nm(&sender),"den":self.names.nm(&coin.denom),
                    "amt":num(x),"from":self.names.nm(&from_eff),"canon":canon}));
                Ok(None)
            }
            "/osmosis.poolmanager.v1beta1.MsgSwapExactAmountIn" | "/osmosis.poolmanager.v1beta1.MsgSwapExactAmountOut" => {
                let is_in = url.ends_with("In");
                pb::only_tags(&fs, &[1, 2, 3, 4])?;
                let sender = pb::get_str(&fs, 1)?;
                if sender != contract {
                    return Err("swap: signer is not the contract".into());
                }
                let mut route = vec![];
                let mut enc = pb::Enc::new();
                enc.string(1, &sender);
                for rb in pb::get_all_bytes(&fs, 2)? {
                    let rf = pb::parse(&rb)?;
                    pb::only_tags(&rf, &[1, 2])?;
                    let pool = pb::get_u64(&rf, 1)?;
                    let den = pb::get_str(&rf, 2)?;
                    enc.msg(2, &pb::Enc::new().uint(1, pool).string(2, &den).done());
                    route.push(json!([pool, den]));
                }
                let (coin_tag, lim_tag) = if is_in { (3, 4) } else { (4, 3) };
                let coin = pb::parse_coin(&pb::get_bytes(&fs, coin_tag)?)?;
                let limit = pb::get_str(&fs, lim_tag)?;
                if is_in {
                    enc.msg(3, &pb::enc_coin(&coin)).string(4, &limit);
                } else {
                    enc.string(3, &limit).msg(4, &pb::enc_coin(&coin));
                }
                let canon = enc.done() == bytes;
                out.msgs.push(json!({"k": if is_in {"swap_in"} else {"swap_out"}, "sender": self.names.nm(&sender), "route": route,
                    "den": coin.denom, "amt": num(u128_of(&coin.amount)?), "limit": num(u128_of(&limit)?), "canon": canon}));
                Ok(None)
            }
            other => Err(format!("unknown type url {other}")),
        }
    }

    // ---------------------------------------------------------------- the treasury contract
    fn with_tdeps_mut<T>(&mut self, f: impl FnOnce(DepsMut, Env) -> T) -> Result<T, String> {
        let api = ChainApi { prefix: self.prefix.clone() };
        let q = MockQuerier::default();
        let mut env = self.env();
        env.contract.address = Addr::unchecked(self.names.ad("treasury"));
        let store = &mut self.tstore;
        let r = catch_unwind(AssertUnwindSafe(|| {
            let deps = DepsMut { storage: store, api: &api, querier: QuerierWrapper::new(&q) };
            f(deps, env)
        }));
        r.map_err(panic_text)
    }

    /// kind: "instantiate" | "execute" | "migrate"
    pub fn tx_treasury(&mut self, kind: &str, sender: &str, msg: &Value) -> TxOut {
        let snap = self.clone();
        self.tx_index += 1;
        self.cur = self.names.ad("treasury");
        let mut out = TxOut::default();
        let text = msg.to_string();
        let info = MessageInfo { sender: Addr::unchecked(sender), funds: vec![] };
        let r: Result<Result<Response, String>, String> = match kind {
            "instantiate" => match from_json::<treasury::msg::InstantiateMsg>(text.as_bytes()) {
                Err(e) => Ok(Err(format!("parse: {e}"))),
                Ok(m) => self.with_tdeps_mut(|d, e| treasury::contract::instantiate(d, e, info, m).map_err(|e| e.to_string())),
            },
            "migrate" => match from_json::<treasury::msg::MigrateMsg>(text.as_bytes()) {
                Err(e) => Ok(Err(format!("parse: {e}"))),
                Ok(m) => self.with_tdeps_mut(|d, e| treasury::contract::migrate(d, e, m).map_err(|e| e.to_string())),
            },
            _ => match from_json::<treasury::msg::ExecuteMsg>(text.as_bytes()) {
                Err(e) => Ok(Err(format!("parse: {e}"))),
                Ok(m) => self.with_tdeps_mut(|d, e| treasury::contract::execute(d, e, info, m).map_err(|e| e.to_string())),
            },
        };
        let res = match r {
            Err(p) => Err((format!("panic: {p}"), true)),
            Ok(Err(e)) => Err((e, false)),
            Ok(Ok(resp)) => {
                let mut c = 0usize;
                // the treasury registers no reply handler: every message is fire-and-forget
                let mut rr = Ok(());
                for a in &resp.attributes {
                    out.attrs.push((a.key.clone(), a.value.clone()));
                }
                for sm in resp.messages {
                    if let Err(e) = self.dispatch(&sm.msg, &TxEnv::default(), &mut c, &mut out) {
                        rr = Err((format!("submessage failed: {e}"), false));
                        break;
                    }
                }
                rr
            }
        };
        for m in out.msgs.iter_mut() {
            if m["k"] == "send" {
                m["k"] = json!("t_send");
            } else if m["k"] == "ibc" {
                m["k"] = json!("t_ibc");
            }
        }
        match res {
            Ok(()) => {
                out.ok = true;
                if kind == "instantiate" {
                    self.t_inst = true;
                }
            }
            Err((e, p)) => {
                let (names, txi) = (self.names.clone(), self.tx_index);
                *self = snap;
                self.names = names;
                self.tx_index = txi;
                out.ok = false;
                out.err = e;
                out.panic = p;
                out.msgs.clear();
            }
        }
        out
    }

    pub fn treasury_query(&self) -> Value {
        let api = ChainApi { prefix: self.prefix.clone() };
        let q = MockQuerier::default();
        let env = self.env();
        let r = catch_unwind(AssertUnwindSafe(|| {
            let deps = Deps { storage: &self.tstore, api: &api, querier: QuerierWrapper::new(&q) };
            match treasury::contract::query(deps, env, treasury::msg::QueryMsg::Config {}) {
                Ok(b) => serde_json::from_slice::<Value>(b.as_slice()).unwrap_or(Value::Null),
                Err(e) => json!({"__err": e.to_string()}),
            }
        }));
        r.unwrap_or(json!({"__panic": true}))
    }

    /// A `reply` the contract did not ask for (unknown id, missing / garbage / valid data, error result):
    /// the entry point must refuse it with a typed error and leave the store alone.
    pub fn tx_stray_reply(&mut self, id: u64, variant: u64) -> TxOut {
        self.cur = self.contract.clone();
        let snap = self.store.clone();
        let result = match variant % 4 {
            0 => SubMsgResult::Ok(SubMsgResponse { events: vec![], data: None }),
            1 => SubMsgResult::Ok(SubMsgResponse { events: vec![], data: Some(Binary::from(vec![0xffu8, 0xff, 0x01])) }),
            2 => SubMsgResult::Ok(SubMsgResponse { events: vec![], data: Some(Binary::from(pb::Enc::new().uint(1, 7).done())) }),
            _ => SubMsgResult::Err("codespace: ibc, code: 7".into()),
        };
        let reply = Reply { id, result };
        let mut out = TxOut::default();
        match self.with_deps_mut(|deps, env| staking::contract::reply(deps, env, reply)) {
            Err(p) => {
                out.panic = true;
                out.err = format!("panic: {p}");
            }
            Ok(Err(e)) => out.err = e.to_string(),
            Ok(Ok(_)) => out.ok = true,
        }
        if !out.ok {
            self.store = snap;
        }
        out
    }

    // ---------------------------------------------------------------- environment events
    /// Relayer delivers the outcome of packet `seq`: "ok", "err" or "timeout".
    pub fn ibc_outcome(&mut self, seq: u64, outcome: &str, cfg_staker: &str) -> Option<TxOut> {
        let p = self.fly.remove(&seq)?;
        match outcome {
            "ok" => {
                if p.denom == IBC_DENOM {
                    *self.nat_bal.entry(p.receiver.clone()).or_insert(0) += p.amount;
                    if p.receiver == cfg_staker {
                        self.led.deliv += p.amount;
                    }
                } else {
                    *self.nat_lst.entry(p.receiver.clone()).or_insert(0) += p.amount;
                }
            }
            _ => {
                self.credit(&p.sender.clone(), &p.denom.clone(), p.amount);
            }
        }
        let m = if outcome == "timeout" {
            json!({"ibc_lifecycle_complete": {"ibc_timeout": {"channel": p.channel, "sequence": seq}}})
        } else {
            json!({"ibc_lifecycle_complete": {"ibc_ack": {"channel": p.channel, "sequence": seq,
                "ack": if outcome == "ok" {"{\"result\":\"AQ==\"}"} else {"{\"error\":\"failed\"}"},
                "success": outcome == "ok"}}})
        };
        if p.callback.as_deref() == Some(&self.contract) {
            Some(self.tx_sudo(&m))
        } else {
            None
        }
    }

    /// ibc-hooks: native account `from` sends `amt` of the staked asset over `channel` with a
    /// wasm memo calling the contract. Credits the intermediate account and calls the contract
    /// as that account; on failure the packet is refunded on the native chain.
    pub fn hook_call(&mut self, channel: &str, from: &str, amt: u128, msg: &Value, limited: bool, denom: &str, tenv: &TxEnv) -> (String, TxOut) {
        let limited = limited && denom == IBC_DENOM;
        let h = hook_account(channel, from, &self.prefix);
        let hname = format!("hook|{}|{}", channel, self.names.nm(from));
        std::sync::Arc::make_mut(&mut self.names).add(&hname, &h);
        if limited {
            let b = self.nat_bal.entry(from.to_string()).or_insert(0);
            if *b < amt {
                return (h, TxOut { ok: false, err: "native sender lacks funds".into(), ..Default::default() });
            }
            *b -= amt;
        }
        self.credit(&h, denom, amt);
        let out = self.tx_execute(&h, msg, &[(denom.to_string(), amt)], tenv);
        if !out.ok {
            // refund on the native chain
            let _ = self.debit(&h, denom, amt);
            if limited {
                *self.nat_bal.entry(from.to_string()).or_insert(0) += amt;
            }
        }
        (h, out)
    }
}
