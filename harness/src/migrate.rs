//! C18: pre-upgrade stores and migration records. Legacy layouts are written as RAW bytes (JSON text under
//! the cw-storage-plus keys), never through the contract's own legacy structs.
use crate::proj;
use crate::run::{Run, Setup, Sink};
use crate::sim::World;
use rand::rngs::StdRng;
use rand::{Rng, SeedableRng};
use serde_json::{json, Map, Value};

fn map_key(ns: &str, id: u64) -> Vec<u8> {
    let mut k = vec![0u8, ns.len() as u8];
    k.extend_from_slice(ns.as_bytes());
    k.extend_from_slice(&id.to_be_bytes());
    k
}
fn map_entries(w: &World, ns: &str) -> Vec<(u64, Value)> {
    let mut prefix = vec![0u8, ns.len() as u8];
    prefix.extend_from_slice(ns.as_bytes());
    w.store.m.iter().filter(|(k, _)| k.len() == prefix.len() + 8 && k.starts_with(&prefix)).map(|(k, v)| {
        let mut id = [0u8; 8];
        id.copy_from_slice(&k[prefix.len()..]);
        (u64::from_be_bytes(id), serde_json::from_slice(v).unwrap_or(Value::Null))
    }).collect()
}

pub fn set_version(w: &mut World, name: &str, version: &str) {
    w.store.m.insert(b"contract_info".to_vec(), json!({"contract": name, "version": version}).to_string().into_bytes());
}

/// Rewrites the two IBC maps into the 1.0.0 layout (amount: u128 as string, no denom, no receiver) and sets
/// the stored version. `extra_waiting` synthetic pending replies are added (the map is empty between
/// transactions, but the migration must carry such records over).
pub fn downgrade_1_0_0(w: &mut World, extra_waiting: usize) {
    downgrade_1_0_0_keys(w, extra_waiting, 0)
}
/// `shift` > 0: every tracked transfer is filed under key = sequence + shift (the migration must keep KEYS, not re-derive them)
pub fn downgrade_1_0_0_keys(w: &mut World, extra_waiting: usize, shift: u64) {
    for (id, v) in map_entries(w, "inflight") {
        let legacy = json!({"sequence": v["sequence"], "amount": v["amount"]["amount"], "status": v["status"]});
        if shift > 0 {
            w.store.m.remove(&map_key("inflight", id));
        }
        w.store.m.insert(map_key("inflight", id + shift), legacy.to_string().into_bytes());
    }
    for (id, v) in map_entries(w, "ibc_waiting_for_reply") {
        let legacy = json!({"amount": v["amount"]["amount"]});
        w.store.m.insert(map_key("ibc_waiting_for_reply", id), legacy.to_string().into_bytes());
    }
    for i in 0..extra_waiting {
        w.store.m.insert(map_key("ibc_waiting_for_reply", 900 + i as u64), json!({"amount": (77 + i).to_string()}).to_string().into_bytes());
    }
    set_version(w, "staking", "1.0.0");
}

fn flatten(prefix: &str, v: &Value, out: &mut Map<String, Value>) {
    match v {
        Value::Object(o) => {
            for (k, x) in o {
                let p = if prefix.is_empty() { k.clone() } else { format!("{prefix}.{k}") };
                flatten(&p, x, out);
            }
        }
        other => {
            out.insert(prefix.to_string(), json!(other.to_string()));
        }
    }
}
pub fn flat(v: &Value) -> Value {
    let mut m = Map::new();
    flatten("", v, &mut m);
    Value::Object(m)
}

fn raw_cfg(w: &World) -> Value {
    w.store.m.get(b"config".as_slice()).and_then(|b| serde_json::from_slice(b).ok()).unwrap_or(Value::Null)
}

/// the 0.4.20 layout of the current configuration
fn legacy_0_4_20(cur: &Value, send_fees: bool, treasury_fallback: &str) -> Value {
    json!({
        "native_token_denom": cur["protocol_chain_config"]["ibc_token_denom"],
        "liquid_stake_token_denom": cur["liquid_stake_token_denom"],
        "treasury_address": match &cur["protocol_fee_config"]["treasury_address"] { Value::String(s) => json!(s), _ => json!(treasury_fallback) },
        "monitors": cur["monitors"],
        "validators": cur["native_chain_config"]["validators"],
        "batch_period": cur["batch_period"],
        "unbonding_period": cur["native_chain_config"]["unbonding_period"],
        "protocol_fee_config": {"dao_treasury_fee": cur["protocol_fee_config"]["dao_treasury_fee"]},
        "multisig_address_config": {"staker_address": cur["native_chain_config"]["staker_address"],
                                    "reward_collector_address": cur["native_chain_config"]["reward_collector_address"]},
        "minimum_liquid_stake_amount": cur["protocol_chain_config"]["minimum_liquid_stake_amount"],
        "ibc_channel_id": cur["protocol_chain_config"]["ibc_channel_id"],
        "stopped": cur["stopped"],
        "oracle_address": cur["protocol_chain_config"]["oracle_address"],
        "send_fees_to_treasury": send_fees,
    })
}
/// `variant` (3 bits) decides independently which of the three oracle fields of the 0.4.18 layout are populated:
/// bit 0 the retained `oracle_address`, bit 1 / bit 2 the deprecated `oracle_contract_address` / `_v2` (dropped by the path)
fn legacy_0_4_18(v20: &Value, ops: bool, variant: u64, dep1: &str, dep2: &str) -> Value {
    let mut o = v20.as_object().cloned().unwrap();
    o.remove("send_fees_to_treasury");
    o.insert("operators".into(), if ops { json!([v20["multisig_address_config"]["staker_address"]]) } else { Value::Null });
    if variant & 1 == 0 {
        o.insert("oracle_address".into(), Value::Null);
    } else if o["oracle_address"].is_null() {
        o.insert("oracle_address".into(), json!(dep1));
    }
    o.insert("oracle_contract_address".into(), if variant & 2 != 0 { json!(dep1) } else { Value::Null });
    o.insert("oracle_contract_address_v2".into(), if variant & 4 != 0 { json!(dep2) } else { Value::Null });
    Value::Object(o)
}

/// Rewrites the stored configuration into the 0.4.20 layout (fees go to the treasury iff one is configured, so that the
/// 0.4.20 -> 1.0.0 path maps it back onto itself) and sets the stored version to 0.4.20.
pub fn to_0_4_20(w: &mut World) {
    let cur = raw_cfg(w);
    let has_treasury = cur["protocol_fee_config"]["treasury_address"].is_string();
    let fb = w.names.ad("treasury");
    let v20 = legacy_0_4_20(&cur, has_treasury, &fb);
    w.store.m.insert(b"config".to_vec(), v20.to_string().into_bytes());
    set_version(w, "staking", "0.4.20");
}

fn others(w: &World, skip: &[&str]) -> Vec<(Vec<u8>, Vec<u8>)> {
    w.store.m.iter().filter(|(k, _)| !skip.iter().any(|s| {
        let mut p = vec![0u8, s.len() as u8];
        p.extend_from_slice(s.as_bytes());
        k.starts_with(&p) || k.as_slice() == s.as_bytes()
    })).map(|(k, v)| (k.clone(), v.clone())).collect()
}

fn a_history(seed: u64, k: u64, sink: &mut Sink) -> Run {
    // protocol-chain recipients only, so that every tracked packet is a staked-asset transfer to the staker
    let mut rng = StdRng::seed_from_u64(seed ^ (k << 8));
    let setup = Setup { treasury: rng.gen_bool(0.5), oracle: rng.gen_bool(0.5), ..Setup::default() };
    let mut r = Run::new(setup, 5000 + k);
    r.start(sink);
    r.apply(sink, &json!({"m":"resume_contract","s":"admin","n":0,"l":0,"r":0}));
    for u in ["u1", "u2"] {
        r.apply(sink, &json!({"m":"faucet","a":u,"d":"IBCTIA","x":2000}));
    }
    // (the second history is a long one: more tracked transfers than any page size used by the contract)
    let n = if k == 1 { 14 } else { rng.gen_range(0..=6) };
    for _ in 0..n {
        r.apply(sink, &json!({"m":"liquid_stake","s":"u1","funds":[["IBCTIA",rng.gen_range(10..90u64)]],"mint_to":"","to_native":"none","expected":-1}));
        if rng.gen_bool(0.4) {
            r.apply(sink, &json!({"m":"hook","inner":"receive_rewards","channel":"channel-1","from":"collector","amt":rng.gen_range(5..40u64),"b":0}));
        }
    }
    let fly: Vec<u64> = r.w.fly.keys().cloned().collect();
    for s in fly {
        match rng.gen_range(0..4) {
            0 => { r.apply(sink, &json!({"m":"ibc_ack","seq":s,"outcome":"err"})); }
            1 => { r.apply(sink, &json!({"m":"ibc_ack","seq":s,"outcome":"timeout"})); }
            2 => { r.apply(sink, &json!({"m":"ibc_ack","seq":s,"outcome":"ok"})); }
            _ => {}
        }
    }
    r
}

pub fn records(seed: u64, nhist: u64) -> Vec<Value> {
    let mut out = vec![];
    let mut sink = Sink::new(Box::new(std::io::sink()));
    let versions = ["0.4.18", "0.4.20", "1.0.0", "1.0.1", "1.1.0", "2.0.0", "1.0.0-rc1", "0.4.19", "0.4.17", "0.3.0", "0.9.9", "1.0.0+build", "garbage", "1.0", ""];
    // (names that merely END with, start with or differ in case from the contract's own name are foreign stores too)
    let names = ["staking", "treasury", "other", "dao-contracts:staking", "crates.io:staking", "staking:v2", "Staking", "staking "];
    for k in 0..nhist {
        let base = a_history(seed, k, &mut sink);
        let cur = raw_cfg(&base.w);
        let natden = cur["protocol_chain_config"]["ibc_token_denom"].clone();
        let staker = cur["native_chain_config"]["staker_address"].clone();
        // ---- path 1.0.0 -> 1.1.0: detail record; once with the store as it is and once with NO tracked transfer but
        //      pending replies (each of the two maps must be converted whatever the other holds)
        for variant in 0..3 {
            let no_tracked = variant == 1;
            let mut w = base.w.clone();
            if no_tracked {
                for (id, _) in map_entries(&w, "inflight") {
                    w.store.m.remove(&map_key("inflight", id));
                }
            }
            downgrade_1_0_0_keys(&mut w, if no_tracked { 2 } else if k == 1 { 12 } else { (k % 3) as usize }, if variant == 2 { 100 } else { 0 });
            let prepk: Vec<Value> = map_entries(&w, "inflight").iter().map(|(id, v)| json!([id, v["sequence"], v["amount"], v["status"]])).collect();
            let prewait: Vec<Value> = map_entries(&w, "ibc_waiting_for_reply").iter().map(|(id, v)| json!([id, v["amount"]])).collect();
            let before = others(&w, &["inflight", "ibc_waiting_for_reply", "contract_info"]);
            let o = w.tx_migrate(&json!({"v1_0_0_to_v1_1_0": {}}));
            // (a field that is absent after the migration is recorded as the string "<missing>", never as JSON null)
            let nn = |x: &Value| -> Value { if x.is_null() { json!("<missing>") } else { x.clone() } };
            let postpk: Vec<Value> = map_entries(&w, "inflight").iter().map(|(id, v)| json!([id, nn(&v["sequence"]), nn(&v["amount"]["denom"]), nn(&v["amount"]["amount"]), nn(&v["receiver"]), nn(&v["status"])])).collect();
            let postwait: Vec<Value> = map_entries(&w, "ibc_waiting_for_reply").iter().map(|(id, v)| json!([id, nn(&v["amount"]["denom"]), nn(&v["amount"]["amount"]), nn(&v["receiver"])])).collect();
            let (pn, pv) = proj::raw_version(&w);
            out.push(json!({"kind": "v110", "ok": o.ok, "panic": o.panic, "prepk": prepk, "prewait": prewait, "postpk": postpk, "postwait": postwait,
                "natden": natden, "staker": staker, "others_unchanged": before == others(&w, &["inflight", "ibc_waiting_for_reply", "contract_info"]),
                "post_name": pn, "post_version": pv, "nmsgs": o.msgs.len()}));
        }
        // ---- version / name gate on every path, each on a store in the layout of the path's source
        for path in ["v0_4_18_to_v0_4_20", "v0_4_20_to_v1_0_0", "v1_0_0_to_v1_1_0"] {
            for ver in versions {
                for name in names {
                    if k > 0 && !(name == "staking" || ver == "1.0.0") {
                        continue; // the full matrix once, the interesting rows on every history
                    }
                  // the eight populations of the three oracle fields on the row that migrates; one of them elsewhere
                  let variants: Vec<u64> = if path == "v0_4_18_to_v0_4_20" && ver == "0.4.18" && name == "staking" { (0..8).collect() } else { vec![(k + 5) % 8] };
                  for variant in variants {
                    let mut w = base.w.clone();
                    let treasury_fb = w.names.ad("treasury");
                    let mut v20 = legacy_0_4_20(&cur, k % 2 == 0, &treasury_fb);
                    // legacy stores differ from a freshly instantiated one: halted at upgrade time, no monitor list at all
                    if name == "staking" && (ver == "0.4.20" || ver == "0.4.18") {
                        v20["stopped"] = json!(k % 2 == 1);
                        if k % 3 == 1 {
                            v20["monitors"] = Value::Null;
                        }
                    }
                    let msg = match path {
                        "v0_4_18_to_v0_4_20" => {
                            let (d1, d2) = (w.names.ad("oracle2"), w.names.ad("c1"));
                            w.store.m.insert(b"config".to_vec(), legacy_0_4_18(&v20, k % 2 == 1, variant, &d1, &d2).to_string().into_bytes());
                            json!({"v0_4_18_to_v0_4_20": {"send_fees_to_treasury": k % 2 == 0}})
                        }
                        "v0_4_20_to_v1_0_0" => {
                            w.store.m.insert(b"config".to_vec(), v20.to_string().into_bytes());
                            json!({"v0_4_20_to_v1_0_0": {"native_account_address_prefix": "celestia", "native_validator_address_prefix": "celestiavaloper",
                                                           "native_token_denom": "utia", "protocol_account_address_prefix": "osmo"}})
                        }
                        _ => {
                            downgrade_1_0_0(&mut w, 1);
                            json!({"v1_0_0_to_v1_1_0": {}})
                        }
                    };
                    set_version(&mut w, name, ver);
                    let pre_flat = flat(&raw_cfg(&w));
                    let snap = w.store.clone();
                    let o = w.tx_migrate(&msg);
                    let (pn, pv) = proj::raw_version(&w);
                    out.push(json!({"kind": "gate", "path": path, "name": name, "version": ver, "ok": o.ok, "panic": o.panic,
                        "unchanged": w.store == snap, "post_name": pn, "post_version": pv,
                        "pre": pre_flat, "post": flat(&raw_cfg(&w)), "send_fees": k % 2 == 0, "nmsgs": o.msgs.len()}));
                  }
                }
            }
        }
        // ---- treasury: name / version gate only
        for ver in versions {
            for name in names {
                if k > 0 {
                    continue;
                }
                let mut w = base.w.clone();
                let admin = w.names.ad("admin");
                w.tx_treasury("instantiate", &admin, &json!({"admin": null, "trader": null, "allowed_swap_routes": []}));
                w.tstore.m.insert(b"contract_info".to_vec(), json!({"contract": name, "version": ver}).to_string().into_bytes());
                let snap = w.tstore.clone();
                let o = w.tx_treasury("migrate", &admin, &json!({}));
                out.push(json!({"kind": "tgate", "name": name, "version": ver, "ok": o.ok, "panic": o.panic, "unchanged": w.tstore == snap}));
            }
        }
    }
    out
}

/// strict semver core: MAJOR.MINOR.PATCH with an optional -prerelease; anything else is unparseable
pub fn semver_triple(v: &str) -> Value {
    let (core, pre) = match v.split_once('-') {
        Some((c, p)) => (c, !p.is_empty()),
        None => (v, false),
    };
    if v.contains('-') && !pre {
        return json!([]);
    }
    let parts: Vec<&str> = core.split('.').collect();
    if parts.len() != 3 {
        return json!([]);
    }
    let mut nums = vec![];
    for p in parts {
        if p.is_empty() || !p.chars().all(|c| c.is_ascii_digit()) || (p.len() > 1 && p.starts_with('0')) {
            return json!([]);
        }
        match p.parse::<u32>() {
            Ok(n) => nums.push(n),
            Err(_) => return json!([]),
        }
    }
    json!([nums[0], nums[1], nums[2], if pre { 0 } else { 1 }])
}
