//! Projection of the simulator's concrete world onto the abstract state of spec/MilkyWay.tla.
//! Everything comes from the contract's public queries, two raw storage reads (admin item and
//! the primary unstake-request map) and the simulator's own ledgers.
use crate::sim::{inum, num, World, IBC_DENOM};
use serde_json::{json, Value};

fn u(v: &Value) -> u128 {
    match v {
        Value::String(s) => s.parse::<u128>().unwrap_or(0),
        Value::Number(n) => n.as_u64().unwrap_or(0) as u128,
        _ => 0,
    }
}

pub fn raw_admin(w: &World) -> String {
    match w.store.m.get(b"admin".as_slice()) {
        Some(b) => match serde_json::from_slice::<Value>(b) {
            Ok(Value::String(s)) => s,
            _ => String::new(),
        },
        None => String::new(),
    }
}

pub fn raw_version(w: &World) -> (String, String) {
    match w.store.m.get(b"contract_info".as_slice()) {
        Some(b) => match serde_json::from_slice::<Value>(b) {
            Ok(v) => (
                v.get("contract").and_then(|x| x.as_str()).unwrap_or("").to_string(),
                v.get("version").and_then(|x| x.as_str()).unwrap_or("").to_string(),
            ),
            _ => (String::new(), String::new()),
        },
        None => (String::new(), String::new()),
    }
}

/// primary unstake-request map, read from raw storage: (batch, user, amount)
pub fn raw_requests(w: &World) -> Vec<(u64, String, u128)> {
    let ns = b"unstake_requests";
    let mut prefix = vec![0u8, ns.len() as u8];
    prefix.extend_from_slice(ns);
    let mut out = vec![];
    for (k, v) in w.store.m.iter() {
        if k.len() > prefix.len() + 10 && k.starts_with(&prefix) && k[prefix.len()] == 0 && k[prefix.len() + 1] == 8 {
            let mut id = [0u8; 8];
            id.copy_from_slice(&k[prefix.len() + 2..prefix.len() + 10]);
            let user = String::from_utf8_lossy(&k[prefix.len() + 10..]).to_string();
            let val: Value = serde_json::from_slice(v).unwrap_or(Value::Null);
            out.push((u64::from_be_bytes(id), user, u(val.get("amount").unwrap_or(&Value::Null))));
        }
    }
    out
}

pub fn cfg_of(w: &World) -> Value {
    w.query(json!({"config": {}}))
}

pub fn staker_addr(w: &World) -> String {
    cfg_of(w)
        .pointer("/native_chain_config/staker_address")
        .and_then(|x| x.as_str())
        .unwrap_or("")
        .to_string()
}

pub fn project(w: &World) -> Value {
    let nm = |s: &str| w.names.nm(s);
    if !w.instantiated {
        return json!({"now": w.now_s(), "uninit": true});
    }
    let st = w.query(json!({"state": {}}));
    let cfg = cfg_of(w);
    let bs = w.query(json!({"batches": {}}));
    let pend = w.query(json!({"pending_batch": {}}));
    let q = w.query(json!({"ibc_queue": {}}));
    let rq = w.query(json!({"ibc_reply_queue": {}}));
    let mut batches = vec![];
    if let Some(arr) = bs.get("batches").and_then(|x| x.as_array()) {
        for b in arr {
            let status = b.get("status").and_then(|x| x.as_str()).unwrap_or("?");
            let due = u(b.get("next_batch_action_time").unwrap_or(&Value::Null)) / 1_000_000_000;
            // BatchResponse flattens None to 0; the status tells which fields are meaningful
            batches.push(json!({
                "id": b.get("id").cloned().unwrap_or(json!(-1)),
                "total": num(u(&b["batch_total_liquid_stake"])),
                "expected": if status == "pending" { json!(-1) } else { num(u(&b["expected_native_unstaked"])) },
                "received": if status == "received" { num(u(&b["received_native_unstaked"])) } else { json!(-1) },
                "cnt": b.get("unstake_request_count").cloned().unwrap_or(json!(-1)),
                "due": if status == "received" { json!(-1) } else { json!(due as u64) },
                "status": status,
            }));
        }
    }
    let mut reqs = vec![];
    for (b, user, amt) in raw_requests(w) {
        reqs.push(json!({"b": b, "u": nm(&user), "amt": num(amt)}));
    }
    let mut pk = vec![];
    if let Some(arr) = q.get("ibc_queue").and_then(|x| x.as_array()) {
        for p in arr {
            let status = match p.get("status").and_then(|x| x.as_str()).unwrap_or("?") {
                "sent" => "sent",
                "ack_failure" => "ackfail",
                "timed_out" => "timeout",
                "ack_success" => "acksuccess",
                o => o,
            }
            .to_string();
            pk.push(json!({
                "seq": p.get("sequence").cloned().unwrap_or(json!(-1)),
                "den": nm(p.pointer("/amount/denom").and_then(|x| x.as_str()).unwrap_or("")),
                "amt": num(u(p.pointer("/amount/amount").unwrap_or(&Value::Null))),
                "rcv": nm(p.get("receiver").and_then(|x| x.as_str()).unwrap_or("")),
                "status": status,
            }));
        }
    }
    let waiting = rq.get("ibc_queue").and_then(|x| x.as_array()).map(|a| a.len()).unwrap_or(0);
    let sopt = |v: Option<&Value>| -> String {
        match v {
            Some(Value::String(s)) => nm(s),
            _ => String::new(),
        }
    };
    let names_of = |v: Option<&Value>| -> Vec<Value> {
        v.and_then(|x| x.as_array())
            .map(|a| a.iter().map(|s| json!(nm(s.as_str().unwrap_or("")))).collect())
            .unwrap_or_default()
    };
    let lst_denom = cfg.get("liquid_stake_token_denom").and_then(|x| x.as_str()).unwrap_or("").to_string();
    let cfgj = json!({
        "natPrefix": cfg.pointer("/native_chain_config/account_address_prefix").cloned().unwrap_or(json!("")),
        "valPrefix": cfg.pointer("/native_chain_config/validator_address_prefix").cloned().unwrap_or(json!("")),
        "tokenDenom": cfg.pointer("/native_chain_config/token_denom").cloned().unwrap_or(json!("")),
        "validators": names_of(cfg.pointer("/native_chain_config/validators")),
        "unbonding": cfg.pointer("/native_chain_config/unbonding_period").cloned().unwrap_or(json!(-1)),
        "staker": sopt(cfg.pointer("/native_chain_config/staker_address")),
        "collector": sopt(cfg.pointer("/native_chain_config/reward_collector_address")),
        "protoPrefix": cfg.pointer("/protocol_chain_config/account_address_prefix").cloned().unwrap_or(json!("")),
        "channel": cfg.pointer("/protocol_chain_config/ibc_channel_id").cloned().unwrap_or(json!("")),
        "natDen": sopt(cfg.pointer("/protocol_chain_config/ibc_token_denom")),
        "minStake": num(u(cfg.pointer("/protocol_chain_config/minimum_liquid_stake_amount").unwrap_or(&Value::Null))),
        "oracle": sopt(cfg.pointer("/protocol_chain_config/oracle_address")),
        "fee": num(u(cfg.pointer("/protocol_fee_config/dao_treasury_fee").unwrap_or(&Value::Null))),
        "treasury": sopt(cfg.pointer("/protocol_fee_config/treasury_address")),
        "monitors": names_of(cfg.get("monitors")),
        "batchPeriod": cfg.get("batch_period").cloned().unwrap_or(json!(-1)),
        "lst": nm(&lst_denom),
    });
    let min_time = match st.get("__err") {
        _ => {
            // owner_transfer_min_time is not exposed by the State query; read the raw item
            match w.store.m.get(b"state".as_slice()).and_then(|b| serde_json::from_slice::<Value>(b).ok()) {
                Some(v) => match v.get("owner_transfer_min_time") {
                    Some(Value::String(s)) => json!((s.parse::<u128>().unwrap_or(0) / 1_000_000_000) as u64),
                    _ => json!(-1),
                },
                None => json!(-1),
            }
        }
    };
    let (vname, vver) = raw_version(w);
    let c = json!({
        "stopped": cfg.get("stopped").cloned().unwrap_or(json!(false)),
        "admin": nm(&raw_admin(w)),
        "pending": nm(st.get("pending_owner").and_then(|x| x.as_str()).unwrap_or("")),
        "minTime": min_time,
        "N": num(u(&st["total_native_token"])),
        "L": num(u(&st["total_liquid_stake_token"])),
        "fees": num(u(&st["total_fees"])),
        "rewards": num(u(&st["total_reward_amount"])),
        "rate": st.get("rate").cloned().unwrap_or(json!("<none>")),
        "stateErr": st.get("__err").is_some() || st.get("__panic").is_some(),
        "pend": pend.get("id").cloned().unwrap_or(json!(-1)),
        "batches": batches,
        "reqs": reqs,
        "pk": pk,
        "waiting": waiting,
        "cfg": cfgj,
        "vname": vname,
        "version": vver,
    });
    let mut bank = vec![];
    for ((a, d), x) in w.bank.iter() {
        bank.push(json!({"a": nm(a), "d": nm(d), "x": num(*x)}));
    }
    let mut fly = vec![];
    for (s, p) in w.fly.iter() {
        fly.push(json!({"seq": s, "den": nm(&p.denom), "amt": num(p.amount), "rcv": nm(&p.receiver), "ch": p.channel, "snd": nm(&p.sender)}));
    }
    let natb: Vec<Value> = w.nat_bal.iter().map(|(a, x)| json!({"a": nm(a), "x": num(*x)})).collect();
    let natl: Vec<Value> = w.nat_lst.iter().map(|(a, x)| json!({"a": nm(a), "x": num(*x)})).collect();
    let paid: Vec<Value> = w.led.paid.iter().map(|(b, x)| json!({"b": b, "x": num(*x)})).collect();
    let wdl: Vec<Value> = w.led.wdl.iter().map(|(b, x)| json!({"b": b, "x": num(*x)})).collect();
    let t = project_treasury(w);
    json!({
        "now": w.now_s(),
        "t": t,
        "c": c,
        "bank": bank,
        "sup": num(*w.supply.get(&lst_denom).unwrap_or(&0)),
        "ibc": {"next": w.ibc_next, "fly": fly},
        "nat": {"bal": natb, "lst": natl},
        "led": {"swept": num(w.led.swept), "radjN": inum(w.led.radj_n), "radjL": inum(w.led.radj_l),
                "paid": paid, "wdl": wdl, "deliv": num(w.led.deliv), "honest": w.led.honest, "forced": w.led.forced, "repointed": w.led.repointed},
    })
}

pub fn ibc_denom_name() -> &'static str {
    let _ = IBC_DENOM;
    "IBCTIA"
}

pub fn project_treasury(w: &World) -> Value {
    if !w.t_inst {
        return json!({"inst": false, "admin": "", "pending": "", "minTime": -1, "trader": "", "routes": [], "qpanic": false});
    }
    let nm = |s: &str| w.names.nm(s);
    let q = w.treasury_query();
    let st = w.tstore.m.get(b"state".as_slice()).and_then(|b| serde_json::from_slice::<Value>(b).ok()).unwrap_or(Value::Null);
    let routes: Vec<Value> = q["allowed_swap_routes"]
        .as_array()
        .map(|a| {
            a.iter()
                .map(|r| {
                    json!(r.as_array().map(|h| h.iter().map(|x| json!({"pool": x["pool_id"], "din": x["token_in_denom"], "dout": x["token_out_denom"]})).collect::<Vec<_>>()).unwrap_or_default())
                })
                .collect()
        })
        .unwrap_or_default();
    json!({
        "inst": true,
        "admin": nm(q["admin"].as_str().unwrap_or("")),
        "pending": match st.get("pending_owner") { Some(Value::String(s)) => nm(s), _ => String::new() },
        "minTime": match st.get("owner_transfer_min_time") {
            Some(Value::String(s)) => json!((s.parse::<u128>().unwrap_or(0) / 1_000_000_000) as u64),
            _ => json!(-1),
        },
        "trader": nm(q["trader"].as_str().unwrap_or("")),
        "routes": routes,
        // the Config query is an entry point too: it must answer, never panic
        "qpanic": q.get("__panic").is_some(),
    })
}
