//! Replays TLC-generated transitions (one EDGE line per transition of a bounded model, see
//! spec/MilkyWay.tla `Do`) through the real contract: the edges form a tree rooted at the model's
//! initial state; it is walked depth-first with world snapshots, so every transition is executed
//! exactly once from the very state the model generated it in. The digest TLC predicted for the
//! successor is compared on EVERY edge; mismatching edges, and a seed-selected sample of all edges,
//! are written out as full trace lines (with their ancestors) for spec/Trace.tla to validate.
use crate::proj::project;
use crate::run::{Run, Setup, Sink};
use crate::sim::TxOut;
use serde_json::{json, Value};
use std::collections::BTreeMap;

pub struct Edge {
    pub id: u64,
    pub call: Value,
    pub digest: Value,
}

pub struct Stats {
    pub edges: u64,
    pub executed: u64,
    pub ok_edges: u64,
    pub refused_edges: u64,
    pub mismatches: u64,
    pub logged: u64,
    pub by_kind: BTreeMap<String, (u64, u64)>,
    pub max_depth: usize,
    pub first_mismatch: Option<Value>,
}

fn unquote(line: &str) -> Option<String> {
    // TLC prints strings as "....": a JSON string literal
    serde_json::from_str::<String>(line.trim()).ok()
}

/// Streams the TLC output. TLC explores breadth-first, so the source of every edge has been seen (as the id
/// of an earlier edge) before the edge itself: depth and partition of every node are known on the fly and only
/// the edges this process needs (its share below PART_DEPTH, everything above) are kept in memory.
pub fn parse_file(path: &str, part: (u64, u64)) -> (Option<Value>, BTreeMap<u64, Vec<Edge>>, u64) {
    use std::io::BufRead;
    let f = std::fs::File::open(path).expect("edges file");
    let rd = std::io::BufReader::with_capacity(1 << 20, f);
    let mut model = None;
    let mut kids: BTreeMap<u64, Vec<Edge>> = BTreeMap::new();
    // node id -> (depth of the node, partition: -1 = shared by all processes)
    let mut info: std::collections::HashMap<u64, (u32, i64)> = std::collections::HashMap::new();
    info.insert(0, (0, -1));
    let mut n = 0u64;
    for line in rd.lines() {
        let Ok(line) = line else { continue };
        if line.starts_with("\"MODEL ") {
            if let Some(s) = unquote(&line) {
                model = serde_json::from_str(&s[6..]).ok();
            }
            continue;
        }
        if !line.starts_with("\"EDGE ") {
            continue;
        }
        n += 1;
        // "EDGE {\"src\":N,\"id\":M,...  - read the two numbers without parsing the whole record
        let num_after = |key: &str| -> Option<u64> {
            let i = line.find(key)? + key.len();
            let rest = &line[i..];
            let end = rest.find(|c: char| !c.is_ascii_digit()).unwrap_or(rest.len());
            rest[..end].parse().ok()
        };
        let (Some(src), Some(id)) = (num_after("\\\"src\\\":"), num_after("\\\"id\\\":")) else { continue };
        let (sd, sp) = *info.get(&src).unwrap_or(&(0, -1));
        let depth = sd + 1;
        let p: i64 = if part.1 <= 1 || (depth as usize) < PART_DEPTH {
            -1
        } else if depth as usize == PART_DEPTH {
            (id % part.1) as i64
        } else {
            sp
        };
        info.insert(id, (depth, p));
        if p != -1 && p != part.0 as i64 {
            continue;
        }
        let Some(s) = unquote(&line) else { continue };
        let v: Value = match serde_json::from_str(&s[5..]) {
            Ok(v) => v,
            Err(_) => continue,
        };
        kids.entry(src).or_default().push(Edge { id, call: v["call"].clone(), digest: v["d"].clone() });
    }
    (model, kids, n)
}

fn ju(v: &Value, k: &str) -> i64 {
    match v.get(k) {
        Some(Value::Number(n)) => n.as_i64().unwrap_or(0),
        Some(Value::String(s)) => s.parse().unwrap_or(0),
        _ => 0,
    }
}
fn rank(s: &str) -> i64 {
    match s {
        "pending" => 0,
        "submitted" => 1,
        _ => 2,
    }
}

fn canon_set(v: Vec<Value>) -> Value {
    let mut s: Vec<String> = v.iter().map(|x| x.to_string()).collect();
    s.sort();
    json!(s)
}
fn set_of(v: &Value) -> Value {
    canon_set(v.as_array().cloned().unwrap_or_default())
}

/// the harness-side counterpart of MilkyWay!Digest
pub fn digest(ok: bool, post: &Value, msgs: &[Value]) -> Value {
    let c = &post["c"];
    let empty = vec![];
    let arr = |v: &Value| -> Vec<Value> { v.as_array().cloned().unwrap_or_default() };
    let due = |b: &Value| -> i64 {
        let d = ju(b, "due");
        if d < 0 { d } else { d.rem_euclid(100000) }
    };
    let md: Vec<Value> = msgs
        .iter()
        .map(|m| match m["k"].as_str().unwrap_or("") {
            "oracle" => json!(["oracle", m["red"], m["pur"], m["to"]]),
            "send" => json!(["send", m["den"], m["amt"], m["to"]]),
            "ibc" => json!(["ibc", m["den"], m["amt"], m["rcv"], m["seq"]]),
            "tf_mint" => json!(["tf_mint", m["den"], m["amt"], m["to"]]),
            "tf_burn" => json!(["tf_burn", m["den"], m["amt"], m["from"]]),
            k => json!([k]),
        })
        .collect();
    json!({
        "ok": ok,
        "s": [c["stopped"], ju(c, "N"), ju(c, "L"), ju(c, "fees"), ju(c, "rewards"), ju(c, "pend"), c["admin"], c["pending"],
              ju(post, "sup"), ju(&post["ibc"], "next"), ju(post, "now").rem_euclid(100000), ju(&post["led"], "swept"), ju(&post["led"], "deliv")],
        "b": c["batches"].as_array().unwrap_or(&empty).iter().map(|b| json!([ju(b, "total"), ju(b, "expected"), ju(b, "received"), ju(b, "cnt"), due(b), b["status"]])).collect::<Vec<_>>(),
        "q": canon_set(arr(&c["reqs"]).iter().map(|q| json!([q["b"], q["u"], q["amt"]])).collect()),
        "p": canon_set(arr(&c["pk"]).iter().map(|p| json!([p["seq"], p["den"], p["amt"], p["rcv"], p["status"]])).collect()),
        "f": canon_set(arr(&post["ibc"]["fly"]).iter().map(|p| json!([p["seq"], p["den"], p["amt"], p["rcv"]])).collect()),
        "k": canon_set(arr(&post["bank"]).iter().filter(|r| ju(r, "x") != 0).map(|r| json!([r["a"], r["d"], r["x"]])).collect()),
        "n": canon_set(arr(&post["nat"]["bal"]).iter().filter(|r| ju(r, "x") != 0).map(|r| json!([r["a"], r["x"]])).collect()),
        "l": canon_set(arr(&post["nat"]["lst"]).iter().filter(|r| ju(r, "x") != 0).map(|r| json!([r["a"], r["x"]])).collect()),
        "m": md,
    })
}

/// normalises a TLC-emitted digest (sets arrive as arrays in arbitrary order)
pub fn norm_expected(d: &Value) -> Value {
    let mut d = d.clone();
    if d.is_object() {
        for k in ["q", "p", "f", "k", "n", "l"] {
            let v = set_of(&d[k]);
            d[k] = v;
        }
    }
    d
}

struct Frame {
    run: Run,
    /// (call, outcome) that led to this node; None for the root
    via: Option<(Value, TxOut)>,
    line: Option<usize>,
}

pub struct Walker<'a> {
    pub kids: &'a BTreeMap<u64, Vec<Edge>>,
    pub sink: &'a mut Sink,
    pub stats: Stats,
    pub sample_mod: u64,
    pub seed: u64,
    pub max_logged_mismatches: u64,
    /// (k, K): this process handles the k-th share of the edges at depth PART_DEPTH (all processes
    /// execute the few edges above that depth; only share 0 counts and compares them)
    pub part: (u64, u64),
    pub part_counter: u64,
}
const PART_DEPTH: usize = 7;

impl<'a> Walker<'a> {
    fn ensure_logged(&mut self, stack: &mut Vec<Frame>) -> usize {
        // log every not-yet-logged ancestor, root first
        let mut parent = 0usize;
        for f in stack.iter_mut() {
            match f.line {
                Some(l) => parent = l,
                None => {
                    let (call, out) = f.via.clone().expect("root is always logged");
                    let l = f.run.log(self.sink, parent, call, &out);
                    f.line = Some(l);
                    self.stats.logged += 1;
                    parent = l;
                }
            }
        }
        parent
    }

    pub fn walk(&mut self, stack: &mut Vec<Frame>, node: u64) {
        self.stats.max_depth = self.stats.max_depth.max(stack.len());
        let Some(edges) = self.kids.get(&node) else { return };
        for e in edges {
            let depth = stack.len();
            // edges above PART_DEPTH are executed by every process (to reach its share) but counted by share 0 only
            let silent = self.part.1 > 1 && depth < PART_DEPTH && self.part.0 != 0;
            let mut run = stack.last().unwrap().run.clone();
            let mut ecall = e.call.clone();
            if run.digest_kind == "ownership:treasury" {
                // the machine of OwnershipMC.tla driven against the treasury contract
                let m = ecall["m"].as_str().unwrap_or("").to_string();
                if m != "time" {
                    ecall["m"] = json!(format!("t_{m}"));
                }
            }
            // OwnershipMC.tla Interfere(k): some other operation of the contract under test, run by the current
            // admin; its own outcome is not judged (the digest carries TRUE), only that the handover state stays put
            let interfere = ecall["m"] == "interfere" || ecall["m"] == "t_interfere";
            if interfere {
                let adm = ecall["s"].clone();
                let op = ecall["op"].as_str().unwrap_or("").to_string();
                ecall = if run.digest_kind == "ownership:treasury" {
                    match op.as_str() {
                        "breaker" => json!({"m":"t_update_config","s":adm,"has_trader":false,"trader":"","has_routes":true,
                                            "routes":[[{"pool":1,"din":"uosmo","dout":"IBCTIA"}]]}),
                        "resume" => json!({"m":"t_spend","s":adm,"den":"IBCTIA","amt":1,"receiver":"u1","channel":""}),
                        "config" => json!({"m":"t_update_config","s":adm,"has_trader":true,"trader":"u1","has_routes":false,"routes":[]}),
                        _ => json!({"m":"t_swap_in","s":"trader","route":[],"den":"uosmo","amt":7,"limit":3}),
                    }
                } else {
                    match op.as_str() {
                        "breaker" => json!({"m":"circuit_breaker","s":adm}),
                        "resume" => json!({"m":"resume_contract","s":adm,"n":0,"l":0,"r":0}),
                        "config" => json!({"m":"update_config","s":adm,"up":{"period":{"secs":86401}}}),
                        _ => json!({"m":"migrate_roundtrip","s":adm}),
                    }
                };
            }
            let (call, out) = run.step(&ecall);
            if silent {
                // executed only to reach this process's share; counted and compared by share 0
                let has_kids = self.kids.contains_key(&e.id);
                stack.push(Frame { run, via: Some((call, out)), line: None });
                if has_kids {
                    self.walk(stack, e.id);
                }
                stack.pop();
                continue;
            }
            self.stats.executed += 1;
            let kind = match call["m"].as_str().unwrap_or("?") {
                "hook" => call["inner"].as_str().unwrap_or("?").to_string(),
                m => m.to_string(),
            };
            let ent = self.stats.by_kind.entry(kind).or_insert((0, 0));
            if out.ok {
                ent.0 += 1;
                self.stats.ok_edges += 1;
            } else {
                ent.1 += 1;
                self.stats.refused_edges += 1;
            }
            let post = project(&run.w);
            // (a JUDGED interference - the nominee trying a privileged operation - reports its real outcome)
            let judged = interfere && e.call.get("judged").and_then(|x| x.as_bool()).unwrap_or(false);
            let dok = out.ok || (interfere && !judged);
            let d = match run.digest_kind.as_str() {
                "ownership:staking" => json!([dok, post["c"]["admin"], post["c"]["pending"], ju(&post["c"], "minTime").rem_euclid(100000)]),
                "ownership:treasury" => json!([dok, post["t"]["admin"], post["t"]["pending"], ju(&post["t"], "minTime").rem_euclid(100000)]),
                "treasury" => json!([out.ok, post["t"]["trader"], post["t"]["routes"].as_array().map(|a| a.len()).unwrap_or(0), out.msgs.iter().map(|m| m["k"].clone()).collect::<Vec<_>>()]),
                _ => digest(out.ok, &post, &out.msgs),
            };
            // a panic inside the code under test is a finding whatever the model predicted for the call (a refusal
            // and a panic look the same in the digest): always kept for validation
            let mismatch = d != norm_expected(&e.digest) || out.panic;
            // transitions that emit messages are always kept for full validation in the small models
            let always = run.digest_kind != "staking" && out.ok && !out.msgs.is_empty();
            let sampled = self.sample_mod > 0 && (e.id.wrapping_mul(0x9E3779B97F4A7C15) ^ self.seed) % self.sample_mod == 0;
            let has_kids = self.kids.contains_key(&e.id);
            if mismatch {
                self.stats.mismatches += 1;
                if self.stats.first_mismatch.is_none() {
                    self.stats.first_mismatch = Some(json!({"edge": e.id, "call": call, "predicted": norm_expected(&e.digest), "observed": d, "err": out.err}));
                }
            }
            stack.push(Frame { run, via: Some((call, out)), line: None });
            if (mismatch && self.stats.mismatches <= self.max_logged_mismatches) || sampled || always {
                self.ensure_logged(stack);
            }
            if has_kids {
                self.walk(stack, e.id);
            }
            stack.pop();
        }
    }
}

pub fn setup_from_model(m: &Value) -> Setup {
    Setup {
        same_prefix: m["samePrefix"].as_bool().unwrap_or(false),
        treasury: !m["treasury"].as_str().unwrap_or("").is_empty(),
        oracle: !m["oracle"].as_str().unwrap_or("").is_empty(),
        fee: m["fee"].as_u64().unwrap_or(0) as u128,
        min_stake: m["minStake"].as_u64().unwrap_or(1) as u128,
        batch_period: m["batchPeriod"].as_u64().unwrap_or(2),
        unbonding: m["unbonding"].as_u64().unwrap_or(2),
        monitors: m["monitors"].as_array().map(|a| a.iter().filter_map(|x| x.as_str().map(|s| s.to_string())).collect())
            .unwrap_or_else(|| vec!["mon1".into(), "mon2".into()]),
        sub: "stTIA".into(),
    }
}

/// Runs the whole tree. Returns the statistics.
/// MODEL.kind selects preamble and digest: "staking" (MilkyWay.tla), "ownership" (OwnershipMC.tla, run
/// against the contract named by `target`), "treasury" (TreasuryMC.tla).
pub fn run_tree(path: &str, sink: &mut Sink, sample_mod: u64, seed: u64, target: &str, part: (u64, u64)) -> Result<Stats, String> {
    let (model, kids, n) = parse_file(path, part);
    let model = model.ok_or("no MODEL line in the TLC output")?;
    let kind = model["kind"].as_str().unwrap_or("staking").to_string();
    let mut run = Run::new(if kind == "staking" { setup_from_model(&model) } else { Setup::default() }, 0);
    run.digest_kind = if kind == "ownership" { format!("ownership:{target}") } else { kind.clone() };
    if !run.start(sink) {
        return Err("instantiate failed".into());
    }
    if kind == "staking" {
        if !model["halted"].as_bool().unwrap_or(false) {
            run.apply(sink, &json!({"m":"resume_contract","s":"admin","n":0,"l":0,"r":0}));
        }
        if model["treasuryContract"].as_bool().unwrap_or(false) {
            run.apply(sink, &json!({"m":"t_instantiate","s":"admin","admin":"admin","trader":"trader","routes":[]}));
        }
        let funds = model["funds"].as_u64().unwrap_or(0);
        for u in model["users"].as_array().cloned().unwrap_or_default() {
            run.apply(sink, &json!({"m":"faucet","a":u,"d":"IBCTIA","x":funds}));
        }
    } else {
        let o = run.apply(sink, &json!({"m":"t_instantiate","s":"admin","admin":"admin","trader":"trader","routes":[]}));
        if !o.ok {
            return Err(format!("treasury instantiate failed: {}", o.err));
        }
        run.apply(sink, &json!({"m":"faucet","a":"treasury","d":"IBCTIA","x":1000}));
    }
    let root_line = run.at;
    let mut w = Walker {
        kids: &kids,
        sink,
        stats: Stats { edges: n, executed: 0, ok_edges: 0, refused_edges: 0, mismatches: 0, logged: 0,
                       by_kind: BTreeMap::new(), max_depth: 0, first_mismatch: None },
        sample_mod,
        seed,
        max_logged_mismatches: 50,
        part,
        part_counter: 0,
    };
    let mut stack = vec![Frame { run, via: None, line: Some(root_line) }];
    w.walk(&mut stack, 0);
    Ok(w.stats)
}
