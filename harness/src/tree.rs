//! Replays TLC-generated transitions (one EDGE line per transition of a bounded model, see
//! spec/MilkyWay.tla `Do`) through the real contract: the edges form a tree rooted at the model's
//! initial state; it is walked depth-first with world snapshots, so every transition is executed
//! exactly once from the very state the model generated it in. The digest TLC predicted for the
//! successor is compared on EVERY edge; mismatching edges, and a seed-selected sample of all edges,
//! are written out as full trace lines (with their ancestors) for spec/Trace.tla to validate.
use crate::proj::project;
use crate::run::{Run, Setup, Sink};
use crate::sim::TxOut;
use serde_json::{json, Value};
use std::collections::BTreeMap;

pub struct Edge {
    pub id: u64,
    pub call: Value,
    pub digest: Value,
}

pub struct Stats {
    pub edges: u64,
    pub executed: u64,
    pub ok_edges: u64,
    pub refused_edges: u64,
    pub mismatches: u64,
    pub logged: u64,
    pub by_kind: BTreeMap<String, (u64, u64)>,
    pub max_depth: usize,
    pub first_mismatch: Option<Value>,
}

fn unquote(line: &str) -> Option<String> {
    // TLC prints strings as "....": a JSON string literal
    serde_json::from_str::<String>(line.trim()).ok()
}

pub fn parse(text: &str) -> (Option<Value>, BTreeMap<u64, Vec<Edge>>, u64) {
    let mut model = None;
    let mut kids: BTreeMap<u64, Vec<Edge>> = BTreeMap::new();
    let mut n = 0u64;
    for line in text.lines() {
        if !line.starts_with("\"EDGE ") && !line.starts_with("\"MODEL ") {
            continue;
        }
        let Some(s) = unquote(line) else { continue };
        if let Some(rest) = s.strip_prefix("MODEL ") {
            model = serde_json::from_str(rest).ok();
        } else if let Some(rest) = s.strip_prefix("EDGE ") {
            let v: Value = match serde_json::from_str(rest) {
                Ok(v) => v,
                Err(_) => continue,
            };
            n += 1;
            kids.entry(v["src"].as_u64().unwrap()).or_default().push(Edge {
                id: v["id"].as_u64().unwrap(),
                call: v["call"].clone(),
                digest: v["d"].clone(),
            });
        }
    }
    (model, kids, n)
}

fn ju(v: &Value, k: &str) -> i64 {
    match v.get(k) {
        Some(Value::Number(n)) => n.as_i64().unwrap_or(0),
        Some(Value::String(s)) => s.parse().unwrap_or(0),
        _ => 0,
    }
}
fn rank(s: &str) -> i64 {
    match s {
        "pending" => 0,
        "submitted" => 1,
        _ => 2,
    }
}

/// the harness-side counterpart of MilkyWay!Digest
pub fn digest(ok: bool, post: &Value) -> Value {
    let c = &post["c"];
    let empty = vec![];
    let bs = c["batches"].as_array().unwrap_or(&empty);
    let reqs = c["reqs"].as_array().unwrap_or(&empty);
    let pk = c["pk"].as_array().unwrap_or(&empty);
    let bank = post["bank"].as_array().unwrap_or(&empty);
    let sum = |it: &mut dyn Iterator<Item = i64>| -> i64 { it.sum() };
    let bal = |own: bool, den: &str| -> i64 {
        bank.iter().filter(|r| (r["a"] == "contract") == own && r["d"] == den).map(|r| ju(r, "x")).sum()
    };
    json!([
        ok,
        c["stopped"],
        ju(c, "N"),
        ju(c, "L"),
        ju(c, "fees"),
        ju(c, "rewards"),
        ju(c, "pend"),
        bs.len(),
        sum(&mut bs.iter().map(|b| rank(b["status"].as_str().unwrap_or("")))),
        sum(&mut bs.iter().map(|b| ju(b, "expected"))),
        sum(&mut bs.iter().map(|b| ju(b, "received"))),
        sum(&mut bs.iter().map(|b| ju(b, "total"))),
        sum(&mut bs.iter().map(|b| ju(b, "due").rem_euclid(1000))),
        sum(&mut reqs.iter().map(|q| ju(q, "amt"))),
        reqs.len(),
        pk.len(),
        sum(&mut pk.iter().filter(|p| p["status"] == "sent").map(|p| ju(p, "amt"))),
        sum(&mut pk.iter().filter(|p| p["status"] == "ackfail" || p["status"] == "timeout").map(|p| ju(p, "amt"))),
        bal(true, "IBCTIA"),
        bal(true, "LST"),
        bal(false, "IBCTIA"),
        bal(false, "LST"),
        ju(post, "sup"),
        ju(&post["ibc"], "next"),
        post["ibc"]["fly"].as_array().map(|a| a.len()).unwrap_or(0),
        sum(&mut post["nat"]["bal"].as_array().unwrap_or(&empty).iter().map(|r| ju(r, "x"))),
        sum(&mut post["nat"]["lst"].as_array().unwrap_or(&empty).iter().map(|r| ju(r, "x"))),
        ju(post, "now").rem_euclid(1000),
        ju(&post["led"], "swept"),
        ju(&post["led"], "deliv"),
        c["admin"],
        c["pending"],
    ])
}

struct Frame {
    run: Run,
    /// (call, outcome) that led to this node; None for the root
    via: Option<(Value, TxOut)>,
    line: Option<usize>,
}

pub struct Walker<'a> {
    pub kids: &'a BTreeMap<u64, Vec<Edge>>,
    pub sink: &'a mut Sink,
    pub stats: Stats,
    pub sample_mod: u64,
    pub seed: u64,
    pub max_logged_mismatches: u64,
}

impl<'a> Walker<'a> {
    fn ensure_logged(&mut self, stack: &mut Vec<Frame>) -> usize {
        // log every not-yet-logged ancestor, root first
        let mut parent = 0usize;
        for f in stack.iter_mut() {
            match f.line {
                Some(l) => parent = l,
                None => {
                    let (call, out) = f.via.clone().expect("root is always logged");
                    let l = f.run.log(self.sink, parent, call, &out);
                    f.line = Some(l);
                    self.stats.logged += 1;
                    parent = l;
                }
            }
        }
        parent
    }

    pub fn walk(&mut self, stack: &mut Vec<Frame>, node: u64) {
        self.stats.max_depth = self.stats.max_depth.max(stack.len());
        let Some(edges) = self.kids.get(&node) else { return };
        for e in edges {
            let mut run = stack.last().unwrap().run.clone();
            let (call, out) = run.step(&e.call);
            self.stats.executed += 1;
            let kind = match call["m"].as_str().unwrap_or("?") {
                "hook" => call["inner"].as_str().unwrap_or("?").to_string(),
                m => m.to_string(),
            };
            let ent = self.stats.by_kind.entry(kind).or_insert((0, 0));
            if out.ok {
                ent.0 += 1;
                self.stats.ok_edges += 1;
            } else {
                ent.1 += 1;
                self.stats.refused_edges += 1;
            }
            let post = project(&run.w);
            let d = digest(out.ok, &post);
            let mismatch = d != e.digest;
            let sampled = self.sample_mod > 0 && (e.id.wrapping_mul(0x9E3779B97F4A7C15) ^ self.seed) % self.sample_mod == 0;
            let has_kids = self.kids.contains_key(&e.id);
            if mismatch {
                self.stats.mismatches += 1;
                if self.stats.first_mismatch.is_none() {
                    self.stats.first_mismatch = Some(json!({"edge": e.id, "call": call, "predicted": e.digest, "observed": d, "err": out.err}));
                }
            }
            stack.push(Frame { run, via: Some((call, out)), line: None });
            if (mismatch && self.stats.mismatches <= self.max_logged_mismatches) || sampled {
                self.ensure_logged(stack);
            }
            if has_kids {
                self.walk(stack, e.id);
            }
            stack.pop();
        }
    }
}

pub fn setup_from_model(m: &Value) -> Setup {
    Setup {
        same_prefix: false,
        treasury: !m["treasury"].as_str().unwrap_or("").is_empty(),
        oracle: !m["oracle"].as_str().unwrap_or("").is_empty(),
        fee: m["fee"].as_u64().unwrap_or(0) as u128,
        min_stake: m["minStake"].as_u64().unwrap_or(1) as u128,
        batch_period: m["batchPeriod"].as_u64().unwrap_or(2),
        unbonding: m["unbonding"].as_u64().unwrap_or(2),
        monitors: vec!["mon1".into(), "mon2".into()],
        sub: "stTIA".into(),
    }
}

/// Runs the whole tree. Returns the statistics.
pub fn run_tree(text: &str, sink: &mut Sink, sample_mod: u64, seed: u64) -> Result<Stats, String> {
    let (model, kids, n) = parse(text);
    let model = model.ok_or("no MODEL line in the TLC output")?;
    let mut run = Run::new(setup_from_model(&model), 0);
    if !run.start(sink) {
        return Err("instantiate failed".into());
    }
    if !model["halted"].as_bool().unwrap_or(false) {
        run.apply(sink, &json!({"m":"resume_contract","s":"admin","n":0,"l":0,"r":0}));
    }
    let funds = model["funds"].as_u64().unwrap_or(0);
    for u in model["users"].as_array().cloned().unwrap_or_default() {
        run.apply(sink, &json!({"m":"faucet","a":u,"d":"IBCTIA","x":funds}));
    }
    let root_line = run.at;
    let mut w = Walker {
        kids: &kids,
        sink,
        stats: Stats { edges: n, executed: 0, ok_edges: 0, refused_edges: 0, mismatches: 0, logged: 0,
                       by_kind: BTreeMap::new(), max_depth: 0, first_mismatch: None },
        sample_mod,
        seed,
        max_logged_mismatches: 50,
    };
    let mut stack = vec![Frame { run, via: None, line: Some(root_line) }];
    w.walk(&mut stack, 0);
    Ok(w.stats)
}
