//! Drivers: a state-aware weighted random walk over every message x principal x environment
//! event, with boundary-seeking time steps. All choices derive from the seed.
use crate::run::{Run, Setup, Sink};
use rand::rngs::StdRng;
use rand::seq::SliceRandom;
use rand::{Rng, SeedableRng};
use serde_json::{json, Value};

pub struct WalkOpts {
    /// keep the operator honest and the admin from rewriting totals (C01b stays non-vacuous)
    pub honest: bool,
    /// allow configuration / ownership / validator changes
    pub admin_ops: bool,
    pub steps: usize,
    /// C17: every `sweep_every` steps (0 = never) the whole read API is swept and recorded here
    pub sweep_every: usize,
    pub sweeps: std::cell::RefCell<Vec<Value>>,
}

fn ju(v: &Value, k: &str) -> u128 {
    match v.get(k) {
        Some(Value::Number(n)) => n.as_u64().unwrap_or(0) as u128,
        Some(Value::String(s)) => s.parse().unwrap_or(0),
        _ => 0,
    }
}

pub fn random_setup(rng: &mut StdRng) -> Setup {
    let fees = [0u128, 1, 10_000, 33_333, 50_000, 100_000, 100_001, 150_000];
    Setup {
        same_prefix: rng.gen_bool(0.25),
        treasury: rng.gen_bool(0.5),
        oracle: rng.gen_bool(0.7),
        fee: *fees.choose(rng).unwrap(),
        min_stake: *[1u128, 1, 5, 10].choose(rng).unwrap(),
        batch_period: *[50u64, 100].choose(rng).unwrap(),
        unbonding: *[200u64, 1000].choose(rng).unwrap(),
        monitors: vec!["mon1".into(), "mon2".into()],
        sub: "stTIA".into(),
    }
}

struct View {
    post: Value,
}
impl View {
    fn of(r: &Run) -> View {
        View { post: crate::proj::project(&r.w) }
    }
    fn c(&self) -> &Value {
        &self.post["c"]
    }
    fn n(&self) -> u128 {
        ju(self.c(), "N")
    }
    fn l(&self) -> u128 {
        ju(self.c(), "L")
    }
    fn now(&self) -> u64 {
        ju(&self.post, "now") as u64
    }
    fn batches(&self) -> Vec<Value> {
        self.c()["batches"].as_array().cloned().unwrap_or_default()
    }
    fn reqs(&self) -> Vec<Value> {
        self.c()["reqs"].as_array().cloned().unwrap_or_default()
    }
    fn pk(&self) -> Vec<Value> {
        self.c()["pk"].as_array().cloned().unwrap_or_default()
    }
    fn fly(&self) -> Vec<u64> {
        self.post["ibc"]["fly"].as_array().map(|a| a.iter().map(|p| ju(p, "seq") as u64).collect()).unwrap_or_default()
    }
    fn bal(&self, a: &str, d: &str) -> u128 {
        self.post["bank"]
            .as_array()
            .and_then(|arr| arr.iter().find(|r| r["a"] == a && r["d"] == d))
            .map(|r| ju(r, "x"))
            .unwrap_or(0)
    }
    fn stopped(&self) -> bool {
        self.c()["stopped"].as_bool().unwrap_or(true)
    }
    fn cfg(&self, k: &str) -> String {
        self.c()["cfg"][k].as_str().unwrap_or("").to_string()
    }
}

const USERS: [&str; 4] = ["u1", "u2", "u3", "c1"];
const ANYONE: [&str; 9] = ["u1", "u2", "u3", "c1", "admin", "admin2", "mon1", "mon2", "treasury"];

pub fn walk(sink: &mut Sink, seed: u64, run_id: u64, setup: Setup, opts: &WalkOpts) -> Run {
    let mut rng = StdRng::seed_from_u64(seed.wrapping_mul(0x9E3779B97F4A7C15).wrapping_add(run_id));
    let mut r = Run::new(setup, run_id);
    assert!(r.start(sink), "instantiate of a valid configuration failed");
    r.apply(sink, &json!({"m":"resume_contract","s":"admin","n":0,"l":0,"r":0}));
    for u in USERS {
        r.apply(sink, &json!({"m":"faucet","a":u,"d":"IBCTIA","x": rng.gen_range(300..900)}));
    }
    let mut admin = "admin".to_string();
    for step_no in 0..opts.steps {
        if opts.sweep_every > 0 && step_no % opts.sweep_every == opts.sweep_every - 1 {
            let users: Vec<String> = USERS.iter().map(|s| s.to_string()).chain(["admin".to_string(), "u5".to_string()]).collect();
            crate::qsweep::sweep(&r.w, &users, &mut opts.sweeps.borrow_mut());
        }
        let v = View::of(&r);
        let total_w: u32 = 100;
        let pick = rng.gen_range(0..total_w);
        let user = *USERS.choose(&mut rng).unwrap();
        let call: Option<Value> = match pick {
            // ---------------------------------------------------------------- stake
            0..=17 => {
                let have = v.bal(user, "IBCTIA");
                if have == 0 {
                    Some(json!({"m":"faucet","a":user,"d":"IBCTIA","x": rng.gen_range(100..500)}))
                } else {
                    let amt = rng.gen_range(1..=have.min(300));
                    let (mint_to, tn) = match rng.gen_range(0..10) {
                        0..=4 => ("".to_string(), "none"),
                        5 => (USERS.choose(&mut rng).unwrap().to_string(), "none"),
                        6 | 7 => (format!("n:{}", ["u1", "u2", "u3"].choose(&mut rng).unwrap()), *["none", "true", "false"].choose(&mut rng).unwrap()),
                        8 => ("".to_string(), *["true", "false"].choose(&mut rng).unwrap()),
                        _ => ("osmo1notanaddress".to_string(), "none"),
                    };
                    // exact expectation, one above, or none
                    let m_exact = if v.n() == 0 || v.l() == 0 { amt } else { v.l() * amt / v.n() };
                    let expected: i64 = match rng.gen_range(0..6) {
                        0 => m_exact as i64,
                        1 => m_exact as i64 + 1,
                        2 if m_exact > 0 => m_exact as i64 - 1,
                        _ => -1,
                    };
                    let fail: Vec<u64> = match rng.gen_range(0..12) {
                        0 => vec![0],
                        1 => vec![1],
                        _ => vec![],
                    };
                    Some(json!({"m":"liquid_stake","s":user,"funds":[["IBCTIA",amt as u64]],"mint_to":mint_to,
                                "to_native":tn,"expected":expected,"ibc_fail":fail,"notx":rng.gen_range(0..8) == 0}))
                }
            }
            // ---------------------------------------------------------------- unstake
            18..=27 => {
                let have = v.bal(user, "LST");
                if have == 0 {
                    None
                } else {
                    let amt = rng.gen_range(1..=have);
                    Some(json!({"m":"liquid_unstake","s":user,"funds":[["LST",amt as u64]]}))
                }
            }
            // ---------------------------------------------------------------- time
            28..=37 => {
                let mut cands: Vec<u64> = vec![v.now() + 1, v.now() + rng.gen_range(2..60)];
                for b in v.batches() {
                    let due = b["due"].as_i64().unwrap_or(-1);
                    if due > 0 {
                        for d in [due - 1, due, due + 1] {
                            if d as u64 >= v.now() {
                                cands.push(d as u64);
                            }
                        }
                    }
                }
                let mt = v.c()["minTime"].as_i64().unwrap_or(-1);
                if mt > 0 && opts.admin_ops {
                    for d in [mt - 1, mt, mt + 1] {
                        if d as u64 >= v.now() {
                            cands.push(d as u64);
                        }
                    }
                }
                Some(json!({"m":"time","t": *cands.choose(&mut rng).unwrap()}))
            }
            // ---------------------------------------------------------------- submit
            38..=44 => Some(json!({"m":"submit_batch","s": *ANYONE.choose(&mut rng).unwrap()})),
            // ---------------------------------------------------------------- ibc outcomes
            45..=56 => {
                let fly = v.fly();
                if fly.is_empty() {
                    None
                } else {
                    let seq = *fly.choose(&mut rng).unwrap();
                    let outcome = match rng.gen_range(0..10) {
                        0..=5 => "ok",
                        6 | 7 => "err",
                        _ => "timeout",
                    };
                    Some(json!({"m":"ibc_ack","seq":seq,"outcome":outcome}))
                }
            }
            // ---------------------------------------------------------------- rewards
            57..=62 => {
                let amt = rng.gen_range(1..200u64);
                let (ch, from) = match rng.gen_range(0..12) {
                    0 => ("channel-2".to_string(), "collector"),
                    1 => (v.cfg("channel"), "staker"),
                    2 => (v.cfg("channel"), "n:u1"),
                    _ => (v.cfg("channel"), "collector"),
                };
                Some(json!({"m":"hook","inner":"receive_rewards","channel":ch,"from":from,"amt":amt,"b":0,"notx":rng.gen_range(0..8) == 0}))
            }
            // ---------------------------------------------------------------- operator returns a batch
            63..=70 => {
                // mostly a Submitted batch; now and then any batch (a second delivery to a Received one,
                // a delivery to the pending one) - those must be refused
                let any = rng.gen_range(0..8) == 0;
                let subs: Vec<Value> = v.batches().into_iter().filter(|b| any || b["status"] == "submitted").collect();
                if subs.is_empty() {
                    None
                } else {
                    let b = subs.choose(&mut rng).unwrap();
                    let exp = if b["status"] == "submitted" { ju(b, "expected") as u64 } else { rng.gen_range(1..50) };
                    let amt = if opts.honest {
                        exp
                    } else {
                        match rng.gen_range(0..8) {
                            0 => exp.saturating_sub(1),
                            1 => exp + 1,
                            2 => 1,
                            _ => exp,
                        }
                    };
                    let (ch, from) = match rng.gen_range(0..12) {
                        0 => ("channel-7".to_string(), "staker"),
                        1 => (v.cfg("channel"), "collector"),
                        _ => (v.cfg("channel"), "staker"),
                    };
                    if amt == 0 {
                        None
                    } else {
                        Some(json!({"m":"hook","inner":"receive_unstaked_tokens","channel":ch,"from":from,"amt":amt,
                                    "b": ju(b, "id") as u64, "limited": from == "staker"}))
                    }
                }
            }
            // ---------------------------------------------------------------- withdraw
            71..=79 => {
                let rq = v.reqs();
                let recv: Vec<u64> = v.batches().iter().filter(|b| b["status"] == "received").map(|b| ju(b, "id") as u64).collect();
                let good: Vec<&Value> = rq.iter().filter(|q| recv.contains(&(ju(q, "b") as u64))).collect();
                if !good.is_empty() && rng.gen_range(0..6) > 0 {
                    let q = good.choose(&mut rng).unwrap();
                    Some(json!({"m":"withdraw","s": q["u"], "b": q["b"]}))
                } else {
                    let nb = v.batches().len() as u64;
                    Some(json!({"m":"withdraw","s": user, "b": rng.gen_range(0..=nb + 1)}))
                }
            }
            // ---------------------------------------------------------------- recover
            80..=86 => {
                let pk = v.pk();
                let rcvs: Vec<String> = pk.iter().map(|p| p["rcv"].as_str().unwrap_or("").to_string()).collect();
                let receiver = match rng.gen_range(0..6) {
                    0 | 1 => "".to_string(),
                    2 => "staker".to_string(),
                    3 => "osmo1bad".to_string(),
                    _ => rcvs.choose(&mut rng).cloned().unwrap_or_default(),
                };
                let forced = rng.gen_range(0..5) == 0 && !pk.is_empty();
                if forced {
                    // admin (or, rarely, a user) selects packets; in honest mode only refundable ones
                    let pool: Vec<u64> = pk
                        .iter()
                        .filter(|p| !opts.honest || p["status"] != "sent")
                        .map(|p| ju(p, "seq") as u64)
                        .collect();
                    if pool.is_empty() || rng.gen_range(0..10) == 0 {
                        // an empty selection (refused), whether or not packets are tracked
                        Some(json!({"m":"recover","s":admin.clone(),"paginated":"none","has_sel":true,"sel":[],"receiver":""}))
                    } else {
                        let k = rng.gen_range(1..=pool.len().min(3));
                        let mut sel: Vec<u64> = pool.choose_multiple(&mut rng, k).cloned().collect();
                        if rng.gen_range(0..4) == 0 {
                            sel.push(sel[0]);
                        }
                        if rng.gen_range(0..8) == 0 {
                            sel.push(9999);
                        }
                        let s = if rng.gen_range(0..6) == 0 { user.to_string() } else { admin.clone() };
                        let rc = if rng.gen_range(0..3) == 0 {
                            receiver
                        } else {
                            pk.iter().find(|p| ju(p, "seq") as u64 == sel[0]).map(|p| p["rcv"].as_str().unwrap_or("").to_string()).unwrap_or_default()
                        };
                        let rc = if rc == "staker" && rng.gen_bool(0.5) { "".to_string() } else { rc };
                        Some(json!({"m":"recover","s":s,"paginated":"none","has_sel":true,"sel":sel,"receiver":rc,
                                    "ibc_fail": if rng.gen_range(0..10) == 0 { vec![0u64] } else { vec![] }}))
                    }
                } else {
                    Some(json!({"m":"recover","s":*ANYONE.choose(&mut rng).unwrap(),
                                "paginated": *["none","true","false"].choose(&mut rng).unwrap(),
                                "has_sel":false,"sel":[],"receiver":receiver,
                                "ibc_fail": if rng.gen_range(0..10) == 0 { vec![0u64] } else { vec![] }}))
                }
            }
            // ---------------------------------------------------------------- fees
            87..=89 => {
                let fees = ju(v.c(), "fees") as u64;
                let amt = match rng.gen_range(0..4) {
                    0 => fees + 1,
                    1 => fees,
                    _ => if fees > 0 { rng.gen_range(1..=fees) } else { 0 },
                };
                let s = if rng.gen_range(0..5) == 0 { user.to_string() } else { admin.clone() };
                Some(json!({"m":"fee_withdraw","s":s,"amt":amt}))
            }
            // ---------------------------------------------------------------- breaker
            90..=92 => {
                if v.stopped() {
                    let s = if rng.gen_range(0..4) == 0 { "mon1".to_string() } else { admin.clone() };
                    let (n, l) = (v.n() as u64, v.l() as u64);
                    let n2 = if opts.honest || l == 0 || rng.gen_range(0..3) > 0 {
                        n
                    } else {
                        // the admin books a slashing / a correction: rate moves below or above 1
                        *[n - n / 10, n + n / 7, n.max(1)].choose(&mut rng).unwrap()
                    };
                    let n2 = if l > 0 && n2 == 0 { 1 } else { n2 };
                    Some(json!({"m":"resume_contract","s":s,"n":n2,"l":l,"r":ju(v.c(), "rewards") as u64}))
                } else {
                    Some(json!({"m":"circuit_breaker","s": *["admin","mon1","mon2","u1","admin2"].choose(&mut rng).unwrap()}))
                }
            }
            // ---------------------------------------------------------------- stray callbacks
            93 | 94 => {
                let kind = *["ok", "err", "timeout"].choose(&mut rng).unwrap();
                let tracked: Vec<u64> = v.pk().iter().map(|p| ju(p, "seq") as u64).collect();
                let (ch, seq) = if rng.gen_bool(0.5) {
                    ("channel-9".to_string(), tracked.choose(&mut rng).cloned().unwrap_or(1))
                } else {
                    (v.cfg("channel"), 5000 + rng.gen_range(0..5))
                };
                Some(json!({"m":"stray","channel":ch,"seq":seq,"kind":kind}))
            }
            // ---------------------------------------------------------------- direct calls that must be refused
            95 => {
                let b = v.batches().len() as u64;
                if rng.gen_bool(0.5) {
                    Some(json!({"m":"receive_rewards","s":user,"funds":[["IBCTIA", 1]]}))
                } else {
                    Some(json!({"m":"receive_unstaked_tokens","s":user,"b": rng.gen_range(1..=b),"funds":[["IBCTIA", 1]]}))
                }
            }
            // ---------------------------------------------------------------- admin operations
            _ => {
                if !opts.admin_ops {
                    None
                } else {
                    let s = if rng.gen_range(0..6) == 0 { user.to_string() } else { admin.clone() };
                    match rng.gen_range(0..9) {
                        0 => Some(json!({"m":"update_config","s":s,"up":{"feecfg":{"fee": *[0u64,1,10_000,50_000,100_000].choose(&mut rng).unwrap(),
                                "treasury": *["","treasury","treasury2"].choose(&mut rng).unwrap(), "valid": true}}})),
                        1 => Some(json!({"m":"update_config","s":s,"up":{"proto":{"channel": v.cfg("channel"), "minStake": *[1u64,5,10].choose(&mut rng).unwrap(),
                                "oracle": *["","oracle","oracle2"].choose(&mut rng).unwrap(), "valid": true}}})),
                        2 => Some(json!({"m":"update_config","s":s,"up":{"period":{"secs": *[50u64,100,150].choose(&mut rng).unwrap()}}})),
                        3 => Some(json!({"m":"update_config","s":s,"up":{"monitorsec":{"list": *[vec!["mon1"], vec!["mon1","mon2"], vec!["mon2","mon3"], vec![]].choose(&mut rng).unwrap(), "valid": true}}})),
                        4 => Some(json!({"m":"transfer_ownership","s":s,"to": *["admin2","admin3","u1"].choose(&mut rng).unwrap(), "tvalid": true})),
                        5 => Some(json!({"m":"revoke_ownership_transfer","s":s})),
                        6 => {
                            let who = *["admin2", "admin3", "u1", "admin"].choose(&mut rng).unwrap();
                            Some(json!({"m":"accept_ownership","s":who}))
                        }
                        7 => Some(json!({"m":"add_validator","s":s,"v": *["val1","val3","val4"].choose(&mut rng).unwrap(), "vvalid": true})),
                        _ => Some(json!({"m":"remove_validator","s":s,"v": *["val1","val2","val3"].choose(&mut rng).unwrap(), "vvalid": true})),
                    }
                }
            }
        };
        if let Some(c) = call {
            let o = r.apply(sink, &c);
            if o.ok && c["m"] == "accept_ownership" {
                admin = c["s"].as_str().unwrap().to_string();
            }
        }
    }
    r
}


/// Wide-range walk for C16: amounts up to 10^27 base units, exchange rates within [10^-3, 10^3], every
/// fee rate and period the validators accept. The only oracle is "a result or a typed error, never a
/// panic"; numeric conformance at this scale is decided on the arithmetic kernel (C04 vector path).
pub fn walk_wide(sink: &mut Sink, seed: u64, run_id: u64, steps: usize, extreme_cfg: bool) -> Run {
    let mut rng = StdRng::seed_from_u64(seed.wrapping_mul(0xD1B54A32D192ED03).wrapping_add(run_id));
    let scale: u128 = *[1u128, 1_000_000, 1_000_000_000_000, 1_000_000_000_000_000_000, 1_000_000_000_000_000_000_000_000].choose(&mut rng).unwrap();
    let fees: [u128; 8] = [0, 1, 99_999, 100_000, 100_001, 1_000_000_000_000, u64::MAX as u128, u128::MAX];
    let setup = Setup {
        same_prefix: rng.gen_bool(0.3),
        treasury: rng.gen_bool(0.5),
        oracle: rng.gen_bool(0.5),
        fee: if extreme_cfg { *fees.choose(&mut rng).unwrap() } else { *[0u128, 1, 10_000, 100_000].choose(&mut rng).unwrap() },
        min_stake: *[0u128, 1, 1000].choose(&mut rng).unwrap() * scale.min(1_000_000),
        batch_period: if extreme_cfg { *[0u64, 1, 100, u64::MAX / 2, u64::MAX - 1_700_000_000, u64::MAX].choose(&mut rng).unwrap() } else { 100 },
        unbonding: if extreme_cfg { *[0u64, 1000, u64::MAX / 2, u64::MAX].choose(&mut rng).unwrap() } else { 1000 },
        monitors: vec!["mon1".into()],
        sub: "stTIA".into(),
    };
    let mut r = Run::new(setup, run_id);
    let big = |rng: &mut StdRng| -> u128 {
        let cap = 1_000_000_000_000_000_000_000_000_000u128; // 10^27
        match rng.gen_range(0..6) {
            0 => cap,
            1 => 1,
            2 => scale,
            _ => (rng.gen_range(1..1000u128) * scale).min(cap),
        }
    };
    if !r.start(sink) {
        return r;
    }
    r.apply(sink, &json!({"m":"resume_contract","s":"admin","n":"0","l":"0","r":"0"}));
    for u in USERS {
        r.apply(sink, &json!({"m":"faucet","a":u,"d":"IBCTIA","x": "30000000000000000000000000000"}));
    }
    // a scripted full cycle at this run's scale first (deep flows are rare in a random walk): stake, ack, rewards,
    // unstake by two users, submit, return (exact / short / long), withdraw, fee withdrawal, recovery of a failed packet
    {
        let a1 = big(&mut rng);
        let a2 = big(&mut rng);
        let mut script: Vec<Value> = vec![
            json!({"m":"liquid_stake","s":"u1","funds":[["IBCTIA",a1.to_string()]],"mint_to":"","to_native":"none","expected":-1}),
            json!({"m":"liquid_stake","s":"u2","funds":[["IBCTIA",a2.to_string()]],"mint_to":"n:u2","to_native":"none","expected":-1}),
            json!({"m":"ibc_ack","seq":1,"outcome":"ok"}), json!({"m":"ibc_ack","seq":2,"outcome":"err"}), json!({"m":"ibc_ack","seq":3,"outcome":"timeout"}),
            json!({"m":"recover","s":"u3","paginated":"true","has_sel":false,"sel":[],"receiver":""}),
            json!({"m":"recover","s":"u3","paginated":"none","has_sel":false,"sel":[],"receiver":"n:u2"}),
            json!({"m":"hook","inner":"receive_rewards","channel":"channel-1","from":"collector","amt":(a1 / 7 + 1).to_string(),"b":0}),
            json!({"m":"liquid_unstake","s":"u1","funds":[["LST",(a1 / 3 + 1).to_string()]]}),
            json!({"m":"liquid_unstake","s":"u1","funds":[["LST",(a1 / 5 + 1).to_string()]]}),
        ];
        for c in script.drain(..) {
            r.apply(sink, &c);
        }
        let due = View::of(&r).batches().first().and_then(|b| b["due"].as_i64()).unwrap_or(0) as u64;
        r.apply(sink, &json!({"m":"time","t":due.max(r.w.now_s())}));
        r.apply(sink, &json!({"m":"submit_batch","s":"u2"}));
        let v = View::of(&r);
        if let Some(b) = v.batches().iter().find(|b| b["status"] == "submitted") {
            let exp = ju(b, "expected");
            let due = b["due"].as_i64().unwrap_or(0) as u64;
            r.apply(sink, &json!({"m":"time","t":due.max(r.w.now_s())}));
            let amt = match rng.gen_range(0..3) { 0 => exp.saturating_sub(1).max(1), 1 => exp + 1, _ => exp.max(1) };
            r.apply(sink, &json!({"m":"hook","inner":"receive_unstaked_tokens","channel":"channel-1","from":"staker","amt":amt.to_string(),"b":ju(b,"id") as u64}));
            r.apply(sink, &json!({"m":"withdraw","s":"u1","b":ju(b,"id") as u64}));
            r.apply(sink, &json!({"m":"withdraw","s":"u1","b":ju(b,"id") as u64}));
        }
        let fees_now = ju(View::of(&r).c(), "fees");
        r.apply(sink, &json!({"m":"fee_withdraw","s":"admin","amt":fees_now.to_string()}));
    }
    for _ in 0..steps {
        let v = View::of(&r);
        let user = *USERS.choose(&mut rng).unwrap();
        let call = match rng.gen_range(0..20) {
            0..=4 => {
                let amt = big(&mut rng);
                let exp = match rng.gen_range(0..4) { 0 => json!(amt.to_string()), 1 => json!("340282366920938463463374607431768211455"), _ => json!(-1) };
                json!({"m":"liquid_stake","s":user,"funds":[["IBCTIA",amt.to_string()]],"mint_to": *["", "n:u1", "u2"].choose(&mut rng).unwrap(),
                       "to_native":"none","expected":exp})
            }
            5 | 6 => {
                let have = v.bal(user, "LST");
                if have == 0 { continue; }
                let amt = match rng.gen_range(0..3) { 0 => have, 1 => 1, _ => (have / 2).max(1) };
                json!({"m":"liquid_unstake","s":user,"funds":[["LST",amt.to_string()]]})
            }
            7 | 8 => {
                let mut t = v.now() + rng.gen_range(1..2000);
                for b in v.batches() {
                    let due = b["due"].as_i64().unwrap_or(-1);
                    if due > v.now() as i64 && rng.gen_bool(0.5) { t = due as u64; }
                }
                json!({"m":"time","t":t})
            }
            9 | 10 => json!({"m":"submit_batch","s":user}),
            11 | 12 => {
                let fly = v.fly();
                if fly.is_empty() { continue; }
                json!({"m":"ibc_ack","seq":*fly.choose(&mut rng).unwrap(),"outcome":*["ok","ok","err","timeout"].choose(&mut rng).unwrap()})
            }
            13 | 14 => {
                // keep the exchange rate within [10^-3, 10^3]
                let amt = big(&mut rng);
                if v.l() == 0 || (v.n().saturating_add(amt)) / v.l().max(1) >= 1000 { continue; }
                json!({"m":"hook","inner":"receive_rewards","channel":"channel-1","from":"collector","amt":amt.to_string(),"b":0})
            }
            15 => {
                let subs: Vec<Value> = v.batches().into_iter().filter(|b| b["status"] == "submitted").collect();
                if subs.is_empty() { continue; }
                let b = subs.choose(&mut rng).unwrap();
                let exp = ju(b, "expected");
                let amt = match rng.gen_range(0..3) { 0 => exp.saturating_sub(1).max(1), 1 => exp + 1, _ => exp.max(1) };
                json!({"m":"hook","inner":"receive_unstaked_tokens","channel":"channel-1","from":"staker","amt":amt.to_string(),"b":ju(b,"id") as u64})
            }
            16 => {
                let nb = v.batches().len() as u64;
                let rq = v.reqs();
                if let Some(q) = rq.choose(&mut rng) { json!({"m":"withdraw","s":q["u"],"b":q["b"]}) } else { json!({"m":"withdraw","s":user,"b":rng.gen_range(0..=nb+1)}) }
            }
            17 => {
                if rng.gen_bool(0.3) {
                    // a reply nobody asked for, and a sudo callback for nothing
                    json!({"m":"stray_reply","id":*[0u64, 1, 7, u64::MAX].choose(&mut rng).unwrap(),"variant":rng.gen_range(0..4u64)})
                } else if rng.gen_bool(0.3) {
                    json!({"m":"stray","channel":*["channel-1","channel-9",""].choose(&mut rng).unwrap(),"seq":rng.gen_range(0..12u64),"kind":*["ok","err","timeout"].choose(&mut rng).unwrap()})
                } else {
                    json!({"m":"recover","s":user,"paginated":*["none","true"].choose(&mut rng).unwrap(),"has_sel":false,"sel":[],"receiver":*["","n:u1"].choose(&mut rng).unwrap()})
                }
            }
            18 => {
                if v.stopped() {
                    // any totals whose rate stays within [10^-3, 10^3]
                    let l = big(&mut rng);
                    let f = rng.gen_range(1..=1000u128);
                    let n = if rng.gen_bool(0.5) { l.saturating_mul(f).min(1_000_000_000_000_000_000_000_000_000_000) } else { (l / f).max(1) };
                    let n = if n > l.saturating_mul(1000) { l.saturating_mul(1000) } else { n };
                    let n = if n.saturating_mul(1000) < l { l / 1000 + 1 } else { n };
                    json!({"m":"resume_contract","s":"admin","n":n.to_string(),"l":l.to_string(),"r":big(&mut rng).to_string()})
                } else {
                    json!({"m":"circuit_breaker","s":*["admin","mon1","u1"].choose(&mut rng).unwrap()})
                }
            }
            _ => {
                let fees_now = ju(v.c(), "fees");
                json!({"m":"fee_withdraw","s":"admin","amt": match rng.gen_range(0..3) {0 => fees_now.to_string(), 1 => "340282366920938463463374607431768211455".to_string(), _ => (fees_now / 2).to_string()}})
            }
        };
        r.apply(sink, &call);
    }
    r
}
