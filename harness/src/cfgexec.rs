//! C14: executes the abstract configuration messages TLC enumerates from spec/ConfigRules.tla.
//! Each class is concretised into real strings (valid bech32 built with the bech32 crate, then damaged as
//! the class says); the outcome is recorded together with an INDEPENDENT classification of what got stored.
use crate::run::{Run, Setup, Sink};
use crate::sim::{World, IBC_DENOM};
use crate::store::mk_addr;
use serde_json::{json, Value};

fn prefix_of(class: &str, good: &str) -> String {
    match class {
        "ok" => good.to_string(),
        "upper" => good.to_uppercase(),
        "mixed" => {
            let mut c = good.chars();
            c.next().map(|f| f.to_uppercase().collect::<String>() + c.as_str()).unwrap_or_default()
        }
        "empty" => String::new(),
        "toolong" => "a".repeat(84),
        "nonascii" => {
            let mut c: Vec<char> = good.chars().collect();
            c.pop();
            c.push('\u{151}'); // 'ő': 0x151 truncates to 0x51 ('Q')
            c.into_iter().collect()
        }
        "other" => "cosmos".to_string(),
        _ => format!("{} x", good), // a space: outside the allowed character range
    }
}
fn addr_of(class: &str, good: &str) -> Value {
    match class {
        "none" => Value::Null,
        "ok" => json!(good),
        "wrongprefix" => {
            let (_, data, _) = bech32::decode(good).unwrap();
            json!(bech32::encode("cosmos", data, bech32::Variant::Bech32).unwrap())
        }
        "extprefix" => {
            let (hrp, data, _) = bech32::decode(good).unwrap();
            json!(bech32::encode(&format!("{hrp}x"), data, bech32::Variant::Bech32).unwrap())
        }
        "badchecksum" => {
            let mut s = good.to_string();
            let last = s.pop().unwrap();
            s.push(if last == 'q' { 'p' } else { 'q' });
            json!(s)
        }
        "notbech32" => json!("not-an-address"),
        "upper" => json!(good.to_uppercase()),
        "mixedcase" => {
            // valid when folded to one case, invalid as spelled (BIP-173 forbids mixed case)
            let n = good.len();
            json!(format!("{}{}", &good[..n - 3], good[n - 3..].to_uppercase()))
        }
        _ => json!(""),
    }
}
fn list_of(class: &str, a1: &str, a2: &str) -> Value {
    match class {
        "ok" => json!([a1, a2]),
        "empty" => json!([]),
        "dup" => json!([a1, a1]),
        "dupfar" => json!([a1, a2, a1]),
        "dupcasefar" => json!([a1.to_uppercase(), a2, a1]),
        "onewrongprefix" => json!([a1, addr_of("wrongprefix", a2)]),
        "oneextprefix" => json!([a1, addr_of("extprefix", a2)]),
        "onebadchecksum" => json!([a1, addr_of("badchecksum", a2)]),
        _ => json!([a1, a1.to_uppercase()]),
    }
}
fn denom_of(class: &str, good: &str) -> String {
    match class {
        "ok" => good.to_string(),
        "short" => good.chars().take(3).collect(),
        _ => format!("{}4", good),
    }
}
fn ibc_denom_of(class: &str) -> String {
    let hex = &IBC_DENOM[4..];
    match class {
        "ok" => IBC_DENOM.to_string(),
        "noprefix" => hex.to_string(),
        "len63" => format!("ibc/{}", &hex[..63]),
        "len65" => format!("ibc/{}A", hex),
        _ => format!("ibc/{}", "é".repeat(32)),
    }
}
fn channel_of(class: &str, good: &str) -> String {
    match class {
        "ok" => good.to_string(),
        "noprefix" => "chan-1".into(),
        "nonnumeric" => "channel-x".into(),
        "empty" => "".into(),
        "bare" => "channel-".into(),
        "signed" => "channel-+5".into(),
        "negative" => "channel--1".into(),
        "huge" => "channel-18446744073709551616".into(),
        _ => "channel- 5".into(),
    }
}

// ---------------------------------------------------------------- independent classifier of stored values
fn good_hrp(s: &str) -> bool {
    !s.is_empty() && s.len() <= 83 && s.bytes().all(|b| (33..=126).contains(&b) && !b.is_ascii_uppercase())
}
fn addr_class(v: &Value, prefix: &str, optional: bool) -> String {
    match v {
        Value::Null if optional => "none".into(),
        Value::String(s) => match bech32::decode(s) {
            Ok((hrp, _, _)) if hrp == prefix => "ok".into(),
            Ok(_) => "bad:prefix".into(),
            Err(_) => "bad:bech32".into(),
        },
        _ => "bad:missing".into(),
    }
}
fn list_class(v: &Value, prefix: &str) -> String {
    let Some(a) = v.as_array() else { return "bad:missing".into() };
    if a.is_empty() {
        return "empty".into();
    }
    let mut seen = std::collections::BTreeSet::new();
    for x in a {
        let c = addr_class(x, prefix, false);
        if c != "ok" {
            return c;
        }
        if !seen.insert(x.as_str().unwrap_or("").to_lowercase()) {
            return "bad:duplicate".into();
        }
    }
    "ok".into()
}
fn alpha_denom(s: &str) -> bool {
    s.chars().count() > 3 && s.chars().all(|c| c.is_ascii_alphabetic())
}
pub fn classify(cfg: &Value, sub: &str) -> Value {
    let np = cfg.pointer("/native_chain_config/account_address_prefix").and_then(|x| x.as_str()).unwrap_or("");
    let vp = cfg.pointer("/native_chain_config/validator_address_prefix").and_then(|x| x.as_str()).unwrap_or("");
    let pp = cfg.pointer("/protocol_chain_config/account_address_prefix").and_then(|x| x.as_str()).unwrap_or("");
    let ok = |b: bool, why: &str| if b { "ok".to_string() } else { format!("bad:{why}") };
    let ch = cfg.pointer("/protocol_chain_config/ibc_channel_id").and_then(|x| x.as_str()).unwrap_or("");
    let chan_ok = ch.strip_prefix("channel-").map(|n| !n.is_empty() && n.chars().all(|c| c.is_ascii_digit()) && n.parse::<u64>().is_ok()).unwrap_or(false);
    let ibcd = cfg.pointer("/protocol_chain_config/ibc_token_denom").and_then(|x| x.as_str()).unwrap_or("");
    let ibc_ok = ibcd.strip_prefix("ibc/").map(|r| r.chars().count() == 64).unwrap_or(false);
    json!({
        "n_prefix": ok(good_hrp(np), "hrp"), "n_valprefix": ok(good_hrp(vp), "hrp"), "p_prefix": ok(good_hrp(pp), "hrp"),
        "n_token": ok(alpha_denom(cfg.pointer("/native_chain_config/token_denom").and_then(|x| x.as_str()).unwrap_or("")), "denom"),
        "n_validators": list_class(cfg.pointer("/native_chain_config/validators").unwrap_or(&Value::Null), vp),
        "n_staker": addr_class(cfg.pointer("/native_chain_config/staker_address").unwrap_or(&Value::Null), np, false),
        "n_collector": addr_class(cfg.pointer("/native_chain_config/reward_collector_address").unwrap_or(&Value::Null), np, false),
        "p_ibcdenom": ok(ibc_ok, "ibcdenom"), "p_channel": ok(chan_ok, "channel"),
        "p_oracle": addr_class(cfg.pointer("/protocol_chain_config/oracle_address").unwrap_or(&Value::Null), pp, true),
        "f_treasury": addr_class(cfg.pointer("/protocol_fee_config/treasury_address").unwrap_or(&Value::Null), pp, true),
        "m_list": list_class(cfg.get("monitors").unwrap_or(&Value::Null), pp),
        "d_sub": ok(alpha_denom(sub), "subdenom"),
    })
}

fn cls<'a>(c: &'a Value, f: &str) -> &'a str {
    c.get(f).and_then(|x| x.as_str()).unwrap_or("ok")
}

struct Base {
    run: Run,
}

fn sections_of(r: &Run, c: &Value, update: bool) -> Value {
    // `update` uses fresh valid values different from the instantiated ones, so that replacement is observable
    let ad = |n: &str| r.ad(n);
    let (st, co, v1, v2, orc, tre, m1, m2, ch, min, fee, unb) = if update {
        ("staker2", "collector2", "val3", "val4", "oracle2", "treasury2", "mon3", "mon1", "channel-7", "5", "777", 1234u64)
    } else {
        ("staker", "collector", "val1", "val2", "oracle", "treasury", "mon1", "mon2", "channel-1", "1", "10000", 1000u64)
    };
    json!({
        "native": {
            "account_address_prefix": prefix_of(cls(c, "n_prefix"), "celestia"),
            "validator_address_prefix": prefix_of(cls(c, "n_valprefix"), "celestiavaloper"),
            "token_denom": denom_of(cls(c, "n_token"), "utia"),
            "validators": list_of(cls(c, "n_validators"), &ad(v1), &ad(v2)),
            "unbonding_period": unb,
            "staker_address": addr_of(cls(c, "n_staker"), &ad(st)),
            "reward_collector_address": addr_of(cls(c, "n_collector"), &ad(co)),
        },
        "proto": {
            "account_address_prefix": prefix_of(cls(c, "p_prefix"), "osmo"),
            "ibc_token_denom": ibc_denom_of(cls(c, "p_ibcdenom")),
            "ibc_channel_id": channel_of(cls(c, "p_channel"), ch),
            "minimum_liquid_stake_amount": min,
            "oracle_address": addr_of(cls(c, "p_oracle"), &ad(orc)),
        },
        "feecfg": {"dao_treasury_fee": fee, "treasury_address": addr_of(cls(c, "f_treasury"), &ad(tre))},
        "monitorsec": list_of(cls(c, "m_list"), &ad(m1), &ad(m2)),
        "period": if update { 77 } else { 100 },
    })
}

fn section_view(cfg: &Value) -> Value {
    json!({"native": cfg["native_chain_config"], "proto": cfg["protocol_chain_config"], "feecfg": cfg["protocol_fee_config"],
           "monitorsec": cfg["monitors"], "period": cfg["batch_period"]})
}

pub fn run_all(text: &str, out: &mut dyn std::io::Write) -> usize {
    let mut sink = Sink::new(Box::new(std::io::sink()));
    // the instantiated, resumed contract every update / validator message is tried on (forked per message)
    let mut base = Base { run: Run::new(Setup { treasury: true, ..Setup::default() }, 1) };
    base.run.start(&mut sink);
    base.run.apply(&mut sink, &json!({"m":"resume_contract","s":"admin","n":0,"l":0,"r":0}));
    // ... and its twin that was never resumed (halted): UpdateConfig must leave the halted flag alone in BOTH states
    let mut halted = Base { run: Run::new(Setup { treasury: true, ..Setup::default() }, 3) };
    halted.run.start(&mut sink);
    let mut n = 0usize;
    let mut work: Vec<(usize, Value, String)> = vec![];
    for (lineno, line) in text.lines().enumerate() {
        if !line.starts_with("\"CFG ") {
            continue;
        }
        let Ok(s) = serde_json::from_str::<String>(line.trim()) else { continue };
        let msg: Value = serde_json::from_str(&s[4..]).unwrap();
        let kind = msg["kind"].as_str().unwrap_or("").to_string();
        work.push((lineno, msg.clone(), kind.clone()));
        if kind == "update" {
            work.push((lineno, msg, "update_halted".to_string()));
        }
    }
    for (lineno, msg, kind) in work {
        let kind = kind.as_str();
        let c = &msg["classes"];
        let rec = match kind {
            "instantiate" => {
                let r = Run::new(Setup::default(), 2);
                let sec = sections_of(&r, c, false);
                let sub = denom_of(cls(c, "d_sub"), "stTIA");
                let m = json!({"native_chain_config": sec["native"], "protocol_chain_config": sec["proto"], "protocol_fee_config": sec["feecfg"],
                               "liquid_stake_token_denom": sub, "batch_period": sec["period"], "monitors": sec["monitorsec"]});
                let mut w: World = r.w.clone();
                let admin = r.ad("admin");
                let o = w.tx_instantiate(&admin, &m);
                let cfg = if o.ok { w.query(json!({"config": {}})) } else { Value::Null };
                let lst = cfg["liquid_stake_token_denom"].as_str().unwrap_or("").to_string();
                let sub_stored = lst.rsplit('/').next().unwrap_or("").to_string();
                json!({"kind": kind, "classes": c, "sections": msg["sections"], "want": msg["want"], "ok": o.ok, "panic": o.panic, "err": o.err,
                       "stored": if o.ok { classify(&cfg, &sub_stored) } else { json!({}) },
                       "lst_ok": !o.ok || lst == format!("factory/{}/{}", w.contract, sub),
                       "halted": !o.ok || cfg["stopped"] == json!(true),
                       "unchanged": json!({}), "replaced": json!({})})
            }
            "update" | "update_halted" => {
                let r = if kind == "update" { &base.run } else { &halted.run };
                let sec = sections_of(r, c, true);
                let supplied: Vec<String> = msg["sections"].as_array().map(|a| a.iter().map(|x| x.as_str().unwrap_or("").to_string()).collect()).unwrap_or_default();
                let mut up = json!({});
                for s in &supplied {
                    let key = match s.as_str() { "native" => "native_chain_config", "proto" => "protocol_chain_config", "feecfg" => "protocol_fee_config", "monitorsec" => "monitors", _ => "batch_period" };
                    up[key] = sec[s.as_str()].clone();
                }
                let mut w = r.w.clone();
                let pre = w.query(json!({"config": {}}));
                let admin = r.ad("admin");
                let o = w.tx_execute(&admin, &json!({"update_config": up}), &[], &Default::default());
                let post = w.query(json!({"config": {}}));
                let (pv, qv) = (section_view(&pre), section_view(&post));
                let mut unchanged = json!({});
                let mut replaced = json!({});
                for s in ["native", "proto", "feecfg", "monitorsec", "period"] {
                    unchanged[s] = json!(pv[s] == qv[s]);
                    // what an accepted section must look like once stored (prefixes are stored lower-case)
                    let mut want = sec[s].clone();
                    for k in ["account_address_prefix", "validator_address_prefix"] {
                        if let Some(Value::String(p)) = want.get(k).cloned() {
                            want[k] = json!(p.to_lowercase());
                        }
                    }
                    replaced[s] = json!(qv[s] == want);
                }
                let sub_stored = post["liquid_stake_token_denom"].as_str().unwrap_or("").rsplit('/').next().unwrap_or("").to_string();
                json!({"kind": "update", "on_halted": kind == "update_halted", "classes": c, "sections": msg["sections"], "want": msg["want"], "ok": o.ok, "panic": o.panic, "err": o.err,
                       "stored": classify(&post, &sub_stored),
                       "lst_ok": pre["liquid_stake_token_denom"] == post["liquid_stake_token_denom"],
                       "halted": pre["stopped"] == post["stopped"],
                       "unchanged": unchanged, "replaced": replaced})
            }
            _ => continue,
        };
        let mut rec = rec;
        rec["src"] = json!(lineno + 1);
        writeln!(out, "{}", rec).unwrap();
        n += 1;
    }
    // validator add / remove matrix on the base contract (validators = [val1, val2])
    let r = &base.run;
    let vals = |w: &World| -> Vec<String> {
        w.query(json!({"config": {}}))["native_chain_config"]["validators"].as_array().map(|a| a.iter().map(|x| x.as_str().unwrap_or("").to_string()).collect()).unwrap_or_default()
    };
    for op in ["add_validator", "remove_validator"] {
        for vclass in ["new", "present", "wrongprefix", "badchecksum", "notbech32", "upper_present"] {
            for sender in ["admin", "u1"] {
                let v = match vclass {
                    "new" => r.ad("val3"),
                    "present" => r.ad("val1"),
                    "wrongprefix" => mk_addr("celestia", "val3", 20),
                    "badchecksum" => addr_of("badchecksum", &r.ad("val3")).as_str().unwrap().to_string(),
                    "notbech32" => "valoper".to_string(),
                    _ => r.ad("val1").to_uppercase(),
                };
                let mut w = r.w.clone();
                let pre = vals(&w);
                let m = if op == "add_validator" { json!({"add_validator": {"new_validator": v}}) } else { json!({"remove_validator": {"validator": v}}) };
                let o = w.tx_execute(&r.ad(sender), &m, &[], &Default::default());
                let post = vals(&w);
                let lower = |l: &Vec<String>| -> Vec<String> { let mut x: Vec<String> = l.iter().map(|s| s.to_lowercase()).collect(); x.sort(); x };
                let mut plus = pre.clone();
                plus.push(v.clone());
                let minus: Vec<String> = pre.iter().filter(|x| **x != v).cloned().collect();
                let dedup_ok = { let l = lower(&post); let mut d = l.clone(); d.dedup(); d.len() == l.len() };
                writeln!(out, "{}", json!({"kind": op, "vclass": vclass, "admin": sender == "admin", "ok": o.ok, "panic": o.panic,
                    "same": post == pre, "added": lower(&post) == lower(&plus), "removed": lower(&post) == lower(&minus) && minus.len() + 1 == pre.len(),
                    "no_duplicates": dedup_ok,
                    "classes": {}, "sections": [], "want": false, "stored": {}, "lst_ok": true, "halted": true, "unchanged": {}, "replaced": {}, "err": o.err})).unwrap();
                n += 1;
            }
        }
    }
    // TLC-enumerated SEQUENCES of validator additions / removals (ConfigMC.tla VSEQ lines): every step recorded with the
    // validator's class computed independently from the list as it stood before the step (any spelling counts as present)
    for (lineno, line) in text.lines().enumerate() {
        if !line.starts_with("\"VSEQ ") {
            continue;
        }
        let Ok(s) = serde_json::from_str::<String>(line.trim()) else { continue };
        let msg: Value = serde_json::from_str(&s[5..]).unwrap();
        let mut w = r.w.clone();
        for (k, st) in msg["steps"].as_array().cloned().unwrap_or_default().iter().enumerate() {
            let op = st["op"].as_str().unwrap_or("");
            let mut v = r.ad(st["v"].as_str().unwrap_or(""));
            if st["spelling"] == "upper" {
                v = v.to_uppercase();
            }
            let pre = vals(&w);
            let present = pre.iter().any(|x| x.to_lowercase() == v.to_lowercase());
            let m = if op == "add_validator" { json!({"add_validator": {"new_validator": v}}) } else { json!({"remove_validator": {"validator": v}}) };
            let o = w.tx_execute(&r.ad("admin"), &m, &[], &Default::default());
            let post = vals(&w);
            let lower = |l: &Vec<String>| -> Vec<String> { let mut x: Vec<String> = l.iter().map(|s| s.to_lowercase()).collect(); x.sort(); x };
            let mut plus = pre.clone();
            plus.push(v.clone());
            // exactly one entry naming this validator disappears, everything else stays
            let minus: Vec<String> = pre.iter().filter(|x| x.to_lowercase() != v.to_lowercase()).cloned().collect();
            let dedup_ok = { let l = lower(&post); let mut d = l.clone(); d.dedup(); d.len() == l.len() };
            writeln!(out, "{}", json!({"kind": op, "vclass": if present { "present" } else { "new" }, "admin": true, "ok": o.ok, "panic": o.panic,
                "same": post == pre, "added": lower(&post) == lower(&plus), "removed": lower(&post) == lower(&minus) && minus.len() + 1 == pre.len(),
                "no_duplicates": dedup_ok, "src": lineno + 1, "step": k + 1, "want": msg["want"][k],
                "classes": {}, "sections": [], "stored": {}, "lst_ok": true, "halted": true, "unchanged": {}, "replaced": {}, "err": o.err})).unwrap();
            n += 1;
        }
    }
    n
}
