//! Hand-written protobuf wire reader / canonical writer.
//! Deliberately independent of prost and of both binding packages: the simulator decodes what
//! the contracts emit with this code only.

#[derive(Clone, Debug, PartialEq)]
pub enum Val {
    Varint(u64),
    Fixed64(u64),
    Bytes(Vec<u8>),
    Fixed32(u32),
}

#[derive(Clone, Debug, PartialEq)]
pub struct Field {
    pub tag: u32,
    pub val: Val,
}

pub fn read_varint(b: &[u8], pos: &mut usize) -> Result<u64, String> {
    let mut out: u64 = 0;
    let mut shift = 0u32;
    loop {
        if *pos >= b.len() {
            return Err("truncated varint".into());
        }
        let byte = b[*pos];
        *pos += 1;
        if shift < 64 {
            out |= ((byte & 0x7f) as u64) << shift;
        }
        if byte & 0x80 == 0 {
            return Ok(out);
        }
        shift += 7;
        if shift > 70 {
            return Err("varint too long".into());
        }
    }
}

pub fn parse(b: &[u8]) -> Result<Vec<Field>, String> {
    let mut pos = 0usize;
    let mut out = vec![];
    while pos < b.len() {
        let key = read_varint(b, &mut pos)?;
        let tag = (key >> 3) as u32;
        let wt = (key & 7) as u8;
        if tag == 0 {
            return Err("tag 0".into());
        }
        let val = match wt {
            0 => Val::Varint(read_varint(b, &mut pos)?),
            1 => {
                if pos + 8 > b.len() {
                    return Err("truncated fixed64".into());
                }
                let mut a = [0u8; 8];
                a.copy_from_slice(&b[pos..pos + 8]);
                pos += 8;
                Val::Fixed64(u64::from_le_bytes(a))
            }
            2 => {
                let len = read_varint(b, &mut pos)? as usize;
                if pos + len > b.len() {
                    return Err("truncated bytes".into());
                }
                let v = b[pos..pos + len].to_vec();
                pos += len;
                Val::Bytes(v)
            }
            5 => {
                if pos + 4 > b.len() {
                    return Err("truncated fixed32".into());
                }
                let mut a = [0u8; 4];
                a.copy_from_slice(&b[pos..pos + 4]);
                pos += 4;
                Val::Fixed32(u32::from_le_bytes(a))
            }
            _ => return Err(format!("unsupported wire type {wt}")),
        };
        out.push(Field { tag, val });
    }
    Ok(out)
}

pub fn write_varint(out: &mut Vec<u8>, mut v: u64) {
    loop {
        let b = (v & 0x7f) as u8;
        v >>= 7;
        if v == 0 {
            out.push(b);
            return;
        }
        out.push(b | 0x80);
    }
}

pub fn write_field(out: &mut Vec<u8>, f: &Field) {
    let wt = match f.val {
        Val::Varint(_) => 0,
        Val::Fixed64(_) => 1,
        Val::Bytes(_) => 2,
        Val::Fixed32(_) => 5,
    };
    write_varint(out, ((f.tag as u64) << 3) | wt);
    match &f.val {
        Val::Varint(v) => write_varint(out, *v),
        Val::Fixed64(v) => out.extend_from_slice(&v.to_le_bytes()),
        Val::Bytes(v) => {
            write_varint(out, v.len() as u64);
            out.extend_from_slice(v);
        }
        Val::Fixed32(v) => out.extend_from_slice(&v.to_le_bytes()),
    }
}

/// Canonical encoder used for the "canonical bytes" checks: fields in ascending tag order,
/// proto3 defaults omitted (varint 0, empty bytes) unless `keep_empty` lists the tag
/// (optional sub-messages that are present but empty).
pub struct Enc {
    pub out: Vec<u8>,
}
impl Enc {
    pub fn new() -> Self {
        Enc { out: vec![] }
    }
    pub fn string(&mut self, tag: u32, s: &str) -> &mut Self {
        if !s.is_empty() {
            write_field(&mut self.out, &Field { tag, val: Val::Bytes(s.as_bytes().to_vec()) });
        }
        self
    }
    pub fn bytes(&mut self, tag: u32, s: &[u8]) -> &mut Self {
        if !s.is_empty() {
            write_field(&mut self.out, &Field { tag, val: Val::Bytes(s.to_vec()) });
        }
        self
    }
    pub fn msg(&mut self, tag: u32, m: &[u8]) -> &mut Self {
        write_field(&mut self.out, &Field { tag, val: Val::Bytes(m.to_vec()) });
        self
    }
    pub fn uint(&mut self, tag: u32, v: u64) -> &mut Self {
        if v != 0 {
            write_field(&mut self.out, &Field { tag, val: Val::Varint(v) });
        }
        self
    }
    pub fn done(&mut self) -> Vec<u8> {
        std::mem::take(&mut self.out)
    }
}

pub fn get_str(fs: &[Field], tag: u32) -> Result<String, String> {
    let mut out = String::new();
    for f in fs {
        if f.tag == tag {
            match &f.val {
                Val::Bytes(b) => {
                    out = String::from_utf8(b.clone()).map_err(|_| format!("tag {tag}: not utf8"))?
                }
                _ => return Err(format!("tag {tag}: wrong wire type")),
            }
        }
    }
    Ok(out)
}
pub fn get_bytes(fs: &[Field], tag: u32) -> Result<Vec<u8>, String> {
    let mut out = vec![];
    for f in fs {
        if f.tag == tag {
            match &f.val {
                Val::Bytes(b) => out = b.clone(),
                _ => return Err(format!("tag {tag}: wrong wire type")),
            }
        }
    }
    Ok(out)
}
pub fn get_u64(fs: &[Field], tag: u32) -> Result<u64, String> {
    let mut out = 0;
    for f in fs {
        if f.tag == tag {
            match &f.val {
                Val::Varint(v) => out = *v,
                _ => return Err(format!("tag {tag}: wrong wire type")),
            }
        }
    }
    Ok(out)
}
pub fn get_all_bytes(fs: &[Field], tag: u32) -> Result<Vec<Vec<u8>>, String> {
    let mut out = vec![];
    for f in fs {
        if f.tag == tag {
            match &f.val {
                Val::Bytes(b) => out.push(b.clone()),
                _ => return Err(format!("tag {tag}: wrong wire type")),
            }
        }
    }
    Ok(out)
}
pub fn has(fs: &[Field], tag: u32) -> bool {
    fs.iter().any(|f| f.tag == tag)
}
pub fn only_tags(fs: &[Field], allowed: &[u32]) -> Result<(), String> {
    for f in fs {
        if !allowed.contains(&f.tag) {
            return Err(format!("unexpected tag {}", f.tag));
        }
    }
    Ok(())
}

#[derive(Clone, Debug, PartialEq)]
pub struct PCoin {
    pub denom: String,
    pub amount: String,
}
pub fn parse_coin(b: &[u8]) -> Result<PCoin, String> {
    let fs = parse(b)?;
    only_tags(&fs, &[1, 2])?;
    Ok(PCoin { denom: get_str(&fs, 1)?, amount: get_str(&fs, 2)? })
}
pub fn enc_coin(c: &PCoin) -> Vec<u8> {
    Enc::new().string(1, &c.denom).string(2, &c.amount).done()
}
