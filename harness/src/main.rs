mod pb;
mod proj;
mod run;
mod sim;
mod store;

use run::{Run, Setup, Sink};
use serde_json::json;

fn smoke(path: &str) {
    let f = std::fs::File::create(path).unwrap();
    let mut sink = Sink::new(Box::new(std::io::BufWriter::new(f)));
    let mut r = Run::new(Setup::default(), 1);
    assert!(r.start(&mut sink));
    let t0 = r.w.now_s();
    let steps = vec![
        json!({"m":"resume_contract","s":"admin","n":0,"l":0,"r":0}),
        json!({"m":"faucet","a":"u1","d":"IBCTIA","x":1000}),
        json!({"m":"liquid_stake","s":"u1","funds":[["IBCTIA",100]],"mint_to":"","to_native":"none","expected":-1}),
        json!({"m":"ibc_ack","seq":1,"outcome":"ok"}),
        json!({"m":"hook","inner":"receive_rewards","channel":"channel-1","from":"collector","amt":50,"b":0}),
        json!({"m":"liquid_stake","s":"u1","funds":[["IBCTIA",100]],"mint_to":"n:u1","to_native":"none","expected":-1}),
        json!({"m":"liquid_unstake","s":"u1","funds":[["LST",40]]}),
        json!({"m":"time","t":t0+100}),
        json!({"m":"submit_batch","s":"u2"}),
        json!({"m":"ibc_ack","seq":2,"outcome":"ok"}),
        json!({"m":"ibc_ack","seq":3,"outcome":"ok"}),
        json!({"m":"ibc_ack","seq":4,"outcome":"err"}),
        json!({"m":"time","t":t0+1100}),
        json!({"m":"hook","inner":"receive_unstaked_tokens","channel":"channel-1","from":"staker","amt":57,"b":1,"limited":true}),
        json!({"m":"withdraw","s":"u1","b":1}),
        json!({"m":"recover","s":"u2","paginated":"none","has_sel":false,"sel":[],"receiver":"n:u1"}),
    ];
    for s in steps {
        let o = r.apply(&mut sink, &s);
        eprintln!("{} -> ok={} err={}", s["m"], o.ok, o.err);
    }
}

fn main() {
    sim::silence_panics();
    let args: Vec<String> = std::env::args().collect();
    match args.get(1).map(|s| s.as_str()) {
        Some("smoke") => smoke(args.get(2).map(|s| s.as_str()).unwrap_or("/dev/stdout")),
        _ => {
            eprintln!("usage: mwh smoke <out>");
            std::process::exit(2);
        }
    }
}
