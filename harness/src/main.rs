mod arith;
mod cfgexec;
mod drive;
mod migrate;
mod pb;
mod proj;
mod qsweep;
mod run;
mod sim;
mod store;
mod tree;

use run::{Run, Setup, Sink};
use serde_json::json;

fn smoke(path: &str) {
    let f = std::fs::File::create(path).unwrap();
    let mut sink = Sink::new(Box::new(std::io::BufWriter::new(f)));
    let mut r = Run::new(Setup::default(), 1);
    assert!(r.start(&mut sink));
    let t0 = r.w.now_s();
    let steps = vec![
        json!({"m":"resume_contract","s":"admin","n":0,"l":0,"r":0}),
        json!({"m":"faucet","a":"u1","d":"IBCTIA","x":1000}),
        json!({"m":"liquid_stake","s":"u1","funds":[["IBCTIA",100]],"mint_to":"","to_native":"none","expected":-1}),
        json!({"m":"ibc_ack","seq":1,"outcome":"ok"}),
        json!({"m":"hook","inner":"receive_rewards","channel":"channel-1","from":"collector","amt":50,"b":0}),
        json!({"m":"liquid_stake","s":"u1","funds":[["IBCTIA",100]],"mint_to":"n:u1","to_native":"none","expected":-1}),
        json!({"m":"liquid_unstake","s":"u1","funds":[["LST",40]]}),
        json!({"m":"time","t":t0+100}),
        json!({"m":"submit_batch","s":"u2"}),
        json!({"m":"ibc_ack","seq":2,"outcome":"ok"}),
        json!({"m":"ibc_ack","seq":3,"outcome":"ok"}),
        json!({"m":"ibc_ack","seq":4,"outcome":"err"}),
        json!({"m":"time","t":t0+1100}),
        json!({"m":"hook","inner":"receive_unstaked_tokens","channel":"channel-1","from":"staker","amt":57,"b":1,"limited":true}),
        json!({"m":"withdraw","s":"u1","b":1}),
        json!({"m":"recover","s":"u2","paginated":"none","has_sel":false,"sel":[],"receiver":"n:u1"}),
    ];
    for s in steps {
        let o = r.apply(&mut sink, &s);
        eprintln!("{} -> ok={} err={}", s["m"], o.ok, o.err);
    }
}

fn main() {
    sim::silence_panics();
    let args: Vec<String> = std::env::args().collect();
    match args.get(1).map(|s| s.as_str()) {
        Some("smoke") => smoke(args.get(2).map(|s| s.as_str()).unwrap_or("/dev/stdout")),
        Some("walk") => {
            // walk <out> <seed> <runs> <steps> <mode: honest|chaos|admin>
            let out = &args[2];
            let seed: u64 = args[3].parse().unwrap();
            let runs: u64 = args[4].parse().unwrap();
            let steps: usize = args[5].parse().unwrap();
            let mode = args.get(6).map(|s| s.as_str()).unwrap_or("chaos");
            let f = std::fs::File::create(out).unwrap();
            let mut sink = Sink::new(Box::new(std::io::BufWriter::new(f)));
            use rand::SeedableRng;
            for k in 0..runs {
                let mut rng = rand::rngs::StdRng::seed_from_u64(seed ^ (k << 20));
                let setup = drive::random_setup(&mut rng);
                let opts = drive::WalkOpts { honest: mode == "honest", admin_ops: mode == "admin", steps, sweep_every: 0, sweeps: Default::default() };
                drive::walk(&mut sink, seed, k + 1, setup, &opts);
            }
            eprintln!("lines={}", sink.n);
        }
        Some("wide") => {
            // wide <out> <seed> <runs> <steps> <extreme-config: 0|1>
            let f = std::fs::File::create(&args[2]).unwrap();
            let mut sink = Sink::new(Box::new(std::io::BufWriter::new(f)));
            sink.reduced = true;
            let seed: u64 = args[3].parse().unwrap();
            let runs: u64 = args[4].parse().unwrap();
            let steps: usize = args[5].parse().unwrap();
            let ext = args.get(6).map(|s| s == "1").unwrap_or(false);
            for k in 0..runs {
                drive::walk_wide(&mut sink, seed, k + 1, steps, ext);
            }
            eprintln!("lines={}", sink.n);
        }
        Some("exec") => {
            // exec <in.ndjson> <out.ndjson>: re-executes the calls of a recorded trace (linear, with
            // instantiate lines starting new runs) against the current tree
            let text = std::fs::read_to_string(&args[2]).unwrap();
            let f = std::fs::File::create(&args[3]).unwrap();
            let mut sink = Sink::new(Box::new(std::io::BufWriter::new(f)));
            let mut cur: Option<Run> = None;
            for line in text.lines() {
                if line.trim().is_empty() {
                    continue;
                }
                let v: serde_json::Value = serde_json::from_str(line).unwrap();
                let call = match v.get("callj").and_then(|x| x.as_str()) {
                    Some(cj) => {
                        sink.reduced = true;
                        serde_json::from_str(cj).unwrap()
                    }
                    None => v.get("call").cloned().unwrap_or(v.clone()),
                };
                if call["m"] == "instantiate" {
                    let setup = run::setup_from_call(&call);
                    let mut r = Run::new(setup, call["run"].as_u64().unwrap_or(0));
                    r.start(&mut sink);
                    cur = Some(r);
                } else if let Some(r) = cur.as_mut() {
                    r.apply(&mut sink, &call);
                }
            }
            eprintln!("lines={}", sink.n);
        }
        Some("arith-small") => {
            let k: u64 = args[2].parse().unwrap();
            let f = std::fs::File::create(&args[3]).unwrap();
            let mut w = std::io::BufWriter::new(f);
            let n = arith::small(k, &mut w);
            println!("{}", json!({"evaluations": n}));
        }
        Some("arith-big") => {
            let seed: u64 = args[2].parse().unwrap();
            let count: usize = args[3].parse().unwrap();
            let v = arith::big(seed, count);
            std::fs::write(&args[4], serde_json::to_string(&v).unwrap()).unwrap();
            println!("{}", json!({"vectors": v.len()}));
        }
        Some("qsweep") => {
            // qsweep <out> <seed> <runs> <steps> <every>: chaos walks with periodic sweeps of the read API
            use rand::SeedableRng;
            use std::io::Write;
            let seed: u64 = args[3].parse().unwrap();
            let runs: u64 = args[4].parse().unwrap();
            let steps: usize = args[5].parse().unwrap();
            let every: usize = args[6].parse().unwrap();
            let mut out = std::io::BufWriter::new(std::fs::File::create(&args[2]).unwrap());
            let mut sink = Sink::new(Box::new(std::io::sink()));
            let mut n = 0usize;
            for k in 0..runs {
                let mut rng = rand::rngs::StdRng::seed_from_u64(seed ^ (k << 20));
                let mut setup = drive::random_setup(&mut rng);
                setup.batch_period = 20; // many batches
                setup.unbonding = 30;
                let opts = drive::WalkOpts { honest: false, admin_ops: false, steps, sweep_every: every, sweeps: Default::default() };
                // scripted build-up: several batches in mixed statuses, packets in every status, users in several batches
                {
                    use rand::Rng;
                    let mut r = Run::new(setup.clone(), 1000 + k);
                    r.start(&mut sink);
                    r.apply(&mut sink, &json!({"m":"resume_contract","s":"admin","n":0,"l":0,"r":0}));
                    let users: Vec<String> = ["u1", "u2", "u3", "c1", "u5"].iter().map(|s| s.to_string()).collect();
                    for u in ["u1", "u2", "u3"] {
                        r.apply(&mut sink, &json!({"m":"faucet","a":u,"d":"IBCTIA","x":2000}));
                    }
                    // the first run is a LONG one: thirteen batches, with u1 requesting in every one of them (more open
                    // requests of one user, and more batches, than any page size or scan bound used by the contract)
                    let rounds = if k == 0 { 13 } else { 3 + (k % 4) };
                    for round in 0..rounds {
                        for u in ["u1", "u2", "u3"] {
                            r.apply(&mut sink, &json!({"m":"liquid_stake","s":u,"funds":[["IBCTIA",rng.gen_range(50..150u64)]],"mint_to": if rng.gen_bool(0.3) {"n:u1"} else {""},"to_native":"none","expected":-1}));
                            if rng.gen_bool(0.7) || (k == 0 && u == "u1") {
                                r.apply(&mut sink, &json!({"m":"liquid_unstake","s":u,"funds":[["LST",rng.gen_range(5..40u64)]]}));
                            }
                            if rng.gen_bool(0.3) {
                                r.apply(&mut sink, &json!({"m":"liquid_unstake","s":u,"funds":[["LST",rng.gen_range(1..9u64)]]}));
                            }
                        }
                        qsweep::sweep(&r.w, &users, &mut opts.sweeps.borrow_mut());
                        r.apply(&mut sink, &json!({"m":"time","dt":20}));
                        r.apply(&mut sink, &json!({"m":"submit_batch","s":"u1"}));
                        // resolve some packets: ok / err / timeout, leave some in flight
                        let fly: Vec<u64> = r.w.fly.keys().cloned().collect();
                        for s in fly {
                            match rng.gen_range(0..5) {
                                0 => { r.apply(&mut sink, &json!({"m":"ibc_ack","seq":s,"outcome":"err"})); }
                                1 => { r.apply(&mut sink, &json!({"m":"ibc_ack","seq":s,"outcome":"timeout"})); }
                                2 => {}
                                _ => { r.apply(&mut sink, &json!({"m":"ibc_ack","seq":s,"outcome":"ok"})); }
                            }
                        }
                        if round % 2 == 0 {
                            r.apply(&mut sink, &json!({"m":"time","dt":30}));
                            let b = round + 1;
                            let exp = r.w.query(json!({"batch": {"id": b}}))["expected_native_unstaked"].as_str().and_then(|x| x.parse::<u64>().ok()).unwrap_or(1).max(1);
                            r.apply(&mut sink, &json!({"m":"hook","inner":"receive_unstaked_tokens","channel":"channel-1","from":"staker","amt":exp,"b":b,"limited":false}));
                            if rng.gen_bool(0.5) {
                                r.apply(&mut sink, &json!({"m":"withdraw","s":"u2","b":b}));
                            }
                        }
                        qsweep::sweep(&r.w, &users, &mut opts.sweeps.borrow_mut());
                    }
                }
                drive::walk(&mut sink, seed, k + 1, setup, &opts);
                for r in opts.sweeps.borrow().iter() {
                    writeln!(out, "{}", r).unwrap();
                    n += 1;
                }
            }
            println!("{}", json!({"records": n}));
        }
        Some("migvec") => {
            // migvec <seed> <histories> <out>
            use std::io::Write;
            let seed: u64 = args[2].parse().unwrap();
            let n: u64 = args[3].parse().unwrap();
            let mut out = std::io::BufWriter::new(std::fs::File::create(&args[4]).unwrap());
            let recs = migrate::records(seed, n);
            for r in &recs {
                let mut r = r.clone();
                // independent semver reading of the stored version: [major, minor, patch, is_release] or []
                if let Some(v) = r.get("version").and_then(|x| x.as_str()) {
                    r["vp"] = migrate::semver_triple(v);
                }
                writeln!(out, "{}", r).unwrap();
            }
            println!("{}", json!({"records": recs.len()}));
        }
        Some("cfgexec") => {
            // cfgexec <tlc-output-with-CFG-lines> <out.ndjson>
            let text = std::fs::read_to_string(&args[2]).unwrap();
            let mut out = std::io::BufWriter::new(std::fs::File::create(&args[3]).unwrap());
            let n = cfgexec::run_all(&text, &mut out);
            println!("{}", json!({"records": n}));
        }
        Some("hookvec") => {
            // hookvec <seed> <n> <out>: the contract's derive_intermediate_sender next to the simulator's own
            // transcription of the Osmosis keeper formula, on generated (channel, sender, prefix) triples
            use rand::{Rng, SeedableRng};
            let seed: u64 = args[2].parse().unwrap();
            let n: usize = args[3].parse().unwrap();
            let mut rng = rand::rngs::StdRng::seed_from_u64(seed);
            let mut out = std::io::BufWriter::new(std::fs::File::create(&args[4]).unwrap());
            use std::io::Write;
            let prefixes = ["osmo", "celestia", "init", "milk"];
            let mut k = 0;
            while k < n {
                let ch = match rng.gen_range(0..8) {
                    // non-canonical spellings the configuration accepts: hashed as spelled, never normalised
                    6 => format!("channel-0{}", rng.gen_range(0..20u64)),
                    7 => format!("channel-00{}", rng.gen_range(0..10u64)),
                    0 => "channel-0".to_string(),
                    1 => "channel-1".to_string(),
                    2 => format!("channel-{}", rng.gen_range(0..20u64)),
                    3 => format!("channel-{}", rng.gen::<u32>()),
                    4 => format!("channel-{}", rng.gen::<u64>()),
                    _ => format!("channel-1{}", rng.gen_range(0..10u64)),
                };
                let sp = prefixes[rng.gen_range(0..prefixes.len())];
                let sender = match rng.gen_range(0..5) {
                    0 => store::mk_addr(sp, &format!("s{}", rng.gen_range(0..6u32)), 20),
                    1 => store::mk_addr(sp, &format!("c{}", rng.gen::<u32>()), 32),
                    2 => format!("{}/{}", rng.gen_range(0..9u32), store::mk_addr(sp, "x", 20)),
                    3 => store::mk_addr(sp, &format!("r{}", rng.gen::<u64>()), 20),
                    _ => store::mk_addr(sp, &format!("s{}", rng.gen_range(0..6u32)), 20).to_uppercase(),
                };
                let prefix = prefixes[rng.gen_range(0..prefixes.len())];
                let imp = std::panic::catch_unwind(|| staking::helpers::derive_intermediate_sender(&ch, &sender, prefix))
                    .map(|r| r.unwrap_or_else(|e| format!("error: {e}")))
                    .unwrap_or("panic".into());
                let sim = store::hook_account(&ch, &sender, prefix);
                writeln!(out, "{}", json!({"channel": ch, "sender": sender, "prefix": prefix, "impl": imp, "sim": sim})).unwrap();
                k += 1;
            }
        }
        Some("hookauth") => {
            // hookauth <out>: C09 under EVERY configuration the contract accepts. A submitted, matured batch and
            // a reward payment are offered by a range of senders after the admin tried to change protocol prefix
            // and channel; recorded per attempt: whether an ibc-hooks intermediate account exists at all for the
            // STORED (channel, staker / collector, prefix) - computed by the simulator's own transcription of the
            // keeper - whether the sender is that account, and whether the contract accepted.
            let mut out = std::io::BufWriter::new(std::fs::File::create(&args[2]).unwrap());
            use std::io::Write;
            let long = "a".repeat(84);
            let p40 = "a".repeat(40);
            let p83 = "b".repeat(83);
            let prefixes: Vec<(&str, &str)> = vec![("long", &p40), ("max", &p83), ("ok", "osmo"), ("upper", "OSMO"), ("mixed", "Osmo"), ("mixed", "oSMO"), ("mixed", "osmO"),
                ("other", "milk"), ("other", "init"), ("badchar", "os mo"), ("empty", ""), ("toolong", &long), ("digit", "osmo1"), ("same", "celestia")];
            let mut null = Sink::new(Box::new(std::io::sink()));
            let mut base = Run::new(Setup::default(), 1);
            assert!(base.start(&mut null));
            let t0 = base.w.now_s();
            for st in [
                json!({"m":"resume_contract","s":"admin","n":0,"l":0,"r":0}),
                json!({"m":"faucet","a":"u1","d":"IBCTIA","x":1000}),
                json!({"m":"liquid_stake","s":"u1","funds":[["IBCTIA",100]],"mint_to":"","to_native":"none","expected":-1}),
                json!({"m":"ibc_ack","seq":1,"outcome":"ok"}),
                json!({"m":"liquid_unstake","s":"u1","funds":[["LST",40]]}),
                json!({"m":"time","t":t0+100}),
                json!({"m":"submit_batch","s":"u2"}),
                json!({"m":"time","t":t0+100000000}),
            ] {
                let o = base.apply(&mut null, &st);
                if !o.ok {
                    eprintln!("hookauth: preamble step {} failed: {}", st["m"], o.err);
                    std::process::exit(2);
                }
            }
            let hook_opt = |ch: &str, from: &str, prefix: &str| -> Option<String> {
                use bech32::ToBase32;
                use sha2::{Digest, Sha256};
                let th = Sha256::digest(b"ibc-wasm-hook-intermediary");
                let mut h = Sha256::new();
                h.update(th);
                h.update(ch.as_bytes());
                h.update(b"/");
                h.update(from.as_bytes());
                bech32::encode(prefix, h.finalize().to_vec().to_base32(), bech32::Variant::Bech32).ok()
            };
            for (pclass, pfx) in &prefixes {
                for ch in ["channel-1", "channel-7", "channel-17", "channel-007"] {
                  // the protocol section alone, and together with a native section that rotates staker and collector
                  for combined in [false, true] {
                    let mut r = base.clone();
                    let upd = if combined {
                        json!({"m":"update_config","s":"admin","up":{"proto":{"prefix":pfx,"channel":ch,"oracle":""},"native":{"staker":"staker2","collector":"collector2"}}})
                    } else {
                        json!({"m":"update_config","s":"admin","up":{"proto":{"prefix":pfx,"channel":ch,"oracle":""}}})
                    };
                    let up = r.apply(&mut null, &upd);
                    let cfg = proj::cfg_of(&r.w);
                    let sp = cfg.pointer("/protocol_chain_config/account_address_prefix").and_then(|x| x.as_str()).unwrap_or("").to_string();
                    let sc = cfg.pointer("/protocol_chain_config/ibc_channel_id").and_then(|x| x.as_str()).unwrap_or("").to_string();
                    let staker = cfg.pointer("/native_chain_config/staker_address").and_then(|x| x.as_str()).unwrap_or("").to_string();
                    let coll = cfg.pointer("/native_chain_config/reward_collector_address").and_then(|x| x.as_str()).unwrap_or("").to_string();
                    // an ACCEPTED update installs what was asked for (prefixes are stored lower-case)
                    let applied = !up.ok || (sp == pfx.to_lowercase() && sc == ch
                        && (!combined || (staker == r.w.names.ad("staker2") && coll == r.w.names.ad("collector2"))));
                    for (handler, origin) in [("receive_unstaked_tokens", &staker), ("receive_rewards", &coll)] {
                        let other = if handler == "receive_rewards" { &staker } else { &coll };
                        let expected = hook_opt(&sc, origin, &sp);
                        let mut cands: Vec<(String, String)> = vec![];
                        if let Some(e) = &expected {
                            cands.push(("expected".into(), e.clone()));
                        }
                        cands.push(("under-osmo".into(), store::hook_account(&sc, origin, "osmo")));
                        cands.push(("under-lowercased".into(), hook_opt(&sc, origin, &sp.to_lowercase()).unwrap_or_else(|| store::mk_addr("osmo", "zz", 20))));
                        cands.push(("other-channel".into(), store::hook_account("channel-2", origin, "osmo")));
                        // the account of the channel with the same NUMBER spelled canonically / with leading zeros
                        let num = sc.trim_start_matches("channel-").trim_start_matches('0');
                        cands.push(("canonical-number".into(), store::hook_account(&format!("channel-{}", if num.is_empty() { "0" } else { num }), origin, "osmo")));
                        cands.push(("zero-padded-number".into(), store::hook_account(&format!("channel-00{}", if num.is_empty() { "0" } else { num }), origin, "osmo")));
                        cands.push(("old-channel".into(), store::hook_account("channel-1", origin, "osmo")));
                        cands.push(("other-origin".into(), store::hook_account(&sc, other, "osmo")));
                        cands.push(("origin-itself".into(), origin.to_string()));
                        cands.push(("admin".into(), r.w.names.ad("admin")));
                        cands.push(("user".into(), r.w.names.ad("u2")));
                        for (label, sender) in cands {
                            let mut w = r.w.clone();
                            w.credit(&sender, sim::IBC_DENOM, 24);
                            let msg = if handler == "receive_rewards" { json!({"receive_rewards": {}}) } else { json!({"receive_unstaked_tokens": {"batch_id": 1}}) };
                            let o = w.tx_execute(&sender, &msg, &[(sim::IBC_DENOM.to_string(), 24)], &sim::TxEnv::default());
                            writeln!(out, "{}", json!({"kind": "auth", "handler": handler, "pclass": pclass, "asked_prefix": pfx, "asked_channel": ch,
                                "update_ok": up.ok, "combined": combined, "update_applied": applied, "prefix": sp, "channel": sc, "expected_exists": expected.is_some(),
                                "cand": label, "is_expected": Some(&sender) == expected.as_ref(), "accepted": o.ok, "panic": o.panic,
                                "err": o.err.chars().take(120).collect::<String>()})).unwrap();
                        }
                    }
                  }
                }
            }
        }
        Some("tree") => {
            // tree <tlc-output-with-EDGE-lines> <out.ndjson> <sample_mod> <seed>
            let f = std::fs::File::create(&args[3]).unwrap();
            let mut sink = Sink::new(Box::new(std::io::BufWriter::new(f)));
            let sample_mod: u64 = args[4].parse().unwrap();
            let seed: u64 = args[5].parse().unwrap();
            let target = args.get(6).map(|s| s.as_str()).unwrap_or("staking");
            let part: (u64, u64) = (args.get(7).and_then(|s| s.parse().ok()).unwrap_or(0), args.get(8).and_then(|s| s.parse().ok()).unwrap_or(1));
            match tree::run_tree(&args[2], &mut sink, sample_mod, seed, target, part) {
                Ok(st) => {
                    let by: serde_json::Map<String, serde_json::Value> = st.by_kind.iter().map(|(k, v)| (k.clone(), json!({"ok": v.0, "refused": v.1}))).collect();
                    println!("{}", json!({"edges": st.edges, "executed": st.executed, "ok": st.ok_edges, "refused": st.refused_edges,
                        "mismatches": st.mismatches, "logged": st.logged, "max_depth": st.max_depth, "by_kind": by,
                        "first_mismatch": st.first_mismatch, "lines": sink.n}));
                }
                Err(e) => {
                    eprintln!("tree: {e}");
                    std::process::exit(2);
                }
            }
        }
        _ => {
            eprintln!("usage: mwh smoke <out> | walk <out> <seed> <runs> <steps> <mode>");
            std::process::exit(2);
        }
    }
}
