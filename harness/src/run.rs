//! A run = one simulated chain + the trace it writes. Every step of every driver, scenario and
//! TLC-generated test goes through `Run::apply(abstract call)`: the call is concretised, executed
//! against the real entry points, observed, projected and logged as one NDJSON line.
use crate::proj::{self, project};
use crate::sim::{num, TxEnv, TxOut, World, IBC_DENOM};
use crate::store::{is_bech32_with_prefix, mk_addr, payload_len};
use serde_json::{json, Value};
use std::io::Write;

#[derive(Clone, Debug)]
pub struct Setup {
    pub same_prefix: bool,
    pub treasury: bool,
    pub oracle: bool,
    pub fee: u128,
    pub min_stake: u128,
    pub batch_period: u64,
    pub unbonding: u64,
    pub monitors: Vec<String>,
    pub sub: String,
}
impl Default for Setup {
    fn default() -> Self {
        Setup {
            same_prefix: false,
            treasury: false,
            oracle: true,
            fee: 10_000,
            min_stake: 1,
            batch_period: 100,
            unbonding: 1000,
            monitors: vec!["mon1".into(), "mon2".into()],
            sub: "stTIA".into(),
        }
    }
}

pub struct Sink {
    pub out: Box<dyn Write>,
    pub n: usize,
    /// wide-range runs (values beyond TLC's 32-bit integers): log call kind and outcome only
    pub reduced: bool,
}
impl Sink {
    pub fn new(out: Box<dyn Write>) -> Sink {
        Sink { out, n: 0, reduced: false }
    }
    pub fn push(&mut self, mut v: Value) -> usize {
        self.n += 1;
        v["i"] = json!(self.n);
        writeln!(self.out, "{}", v).unwrap();
        self.n
    }
}

#[derive(Clone)]
pub struct Run {
    pub w: World,
    /// line number (1-based) whose post-state is the current state; 0 = none yet
    pub at: usize,
    pub setup: Setup,
    pub run_id: u64,
    pub digest_kind: String,
}

fn jstr(v: &Value, k: &str) -> String {
    v.get(k).and_then(|x| x.as_str()).unwrap_or("").to_string()
}
fn ju(v: &Value, k: &str) -> u128 {
    match v.get(k) {
        Some(Value::Number(n)) => n.as_u64().unwrap_or(0) as u128,
        Some(Value::String(s)) => s.parse().unwrap_or(0),
        _ => 0,
    }
}
fn ji(v: &Value, k: &str) -> i64 {
    v.get(k).and_then(|x| x.as_i64()).unwrap_or(-1)
}

pub fn native_prefix(s: &Setup) -> &'static str {
    if s.same_prefix {
        "osmo"
    } else {
        "celestia"
    }
}

impl Run {
    pub fn new(setup: Setup, run_id: u64) -> Run {
        let mut w = World::new("osmo");
        let np = native_prefix(&setup);
        for n in ["admin", "admin2", "admin3", "mon1", "mon2", "mon3", "u1", "u2", "u3", "u4", "u5", "trader"] {
            let a = mk_addr("osmo", n, 20);
            std::sync::Arc::make_mut(&mut w.names).add(n, &a);
        }
        // a crowd (more accounts than any page size / scan bound used by the contract)
        for k in 1..=40 {
            let n = format!("v{k}");
            let a = mk_addr("osmo", &n, 20);
            std::sync::Arc::make_mut(&mut w.names).add(&n, &a);
        }
        for n in ["c1", "treasury", "treasury2", "oracle", "oracle2"] {
            let a = mk_addr("osmo", n, 32);
            std::sync::Arc::make_mut(&mut w.names).add(n, &a);
        }
        for n in ["staker", "collector", "staker2", "collector2", "n:u1", "n:u2", "n:u3", "n:u4", "n:c1"] {
            let a = mk_addr(np, n, 20);
            std::sync::Arc::make_mut(&mut w.names).add(n, &a);
        }
        // an upper-case spelling of a monitor's address (legal bech32, stored verbatim by the contract) and an address
        // whose prefix merely STARTS with the protocol prefix
        let up = w.names.ad("mon2").to_uppercase();
        std::sync::Arc::make_mut(&mut w.names).add("MON2", &up);
        let ov = mk_addr("osmovaloper", "u1", 20);
        std::sync::Arc::make_mut(&mut w.names).add("ov:u1", &ov);
        std::sync::Arc::make_mut(&mut w.names).add("OTHERIBC", "ibc/0000000000000000000000000000000000000000000000000000000000000BAD");
        // the ibc-hooks intermediate accounts of the configured staker / collector are principals too (C08)
        for who in ["staker", "collector"] {
            let h = crate::store::hook_account("channel-1", &w.names.ad(who), "osmo");
            std::sync::Arc::make_mut(&mut w.names).add(&format!("hook|channel-1|{who}"), &h);
        }
        for n in ["val1", "val2", "val3", "val4"] {
            let a = mk_addr(&format!("{np}valoper"), n, 20);
            std::sync::Arc::make_mut(&mut w.names).add(n, &a);
        }
        Run { w, at: 0, setup, run_id, digest_kind: "staking".into() }
    }

    pub fn ad(&self, n: &str) -> String {
        self.w.names.ad(n)
    }

    pub fn instantiate_msg(&self) -> Value {
        let s = &self.setup;
        let np = native_prefix(s);
        json!({
            "native_chain_config": {
                "account_address_prefix": np,
                "validator_address_prefix": format!("{np}valoper"),
                "token_denom": "utia",
                "validators": [self.ad("val1"), self.ad("val2")],
                "unbonding_period": s.unbonding,
                "staker_address": self.ad("staker"),
                "reward_collector_address": self.ad("collector"),
            },
            "protocol_chain_config": {
                "account_address_prefix": "osmo",
                "ibc_token_denom": IBC_DENOM,
                "ibc_channel_id": "channel-1",
                "minimum_liquid_stake_amount": s.min_stake.to_string(),
                "oracle_address": if s.oracle { json!(self.ad("oracle")) } else { Value::Null },
            },
            "protocol_fee_config": {
                "dao_treasury_fee": s.fee.to_string(),
                "treasury_address": if s.treasury { json!(self.ad("treasury")) } else { Value::Null },
            },
            "liquid_stake_token_denom": s.sub,
            "batch_period": s.batch_period,
            "monitors": s.monitors.iter().map(|m| self.ad(m)).collect::<Vec<_>>(),
        })
    }

    /// First line of a run: instantiate (logged with parent 0).
    pub fn start(&mut self, sink: &mut Sink) -> bool {
        let msg = self.instantiate_msg();
        let admin = self.ad("admin");
        let out = self.w.tx_instantiate(&admin, &msg);
        let s = &self.setup;
        let call = json!({"m":"instantiate","s":"admin","run":self.run_id,
            "cfg": {"samePrefix": s.same_prefix, "treasury": if s.treasury {"treasury"} else {""},
                    "oracle": if s.oracle {"oracle"} else {""}, "fee": num(s.fee), "minStake": num(s.min_stake),
                    "batchPeriod": s.batch_period, "unbonding": s.unbonding, "monitors": s.monitors, "sub": s.sub,
                    "miniwasm": cfg!(feature = "miniwasm")}});
        self.log(sink, 0, call, &out);
        out.ok
    }

    pub fn log(&mut self, sink: &mut Sink, parent: usize, call: Value, out: &TxOut) -> usize {
        if sink.reduced {
            let inner = if call["m"] == "hook" { call["inner"].clone() } else { call["m"].clone() };
            // the State and Config queries must answer too (never panic)
            let mut qs = String::new();
            if self.w.instantiated {
                for q in [json!({"state": {}}), json!({"config": {}}), json!({"batches": {}}), json!({"pending_batch": {}}),
                          json!({"ibc_queue": {}}), json!({"batch": {"id": 1}})] {
                    if let Err(p) = self.w.query_raw(&q) {
                        qs = format!("query {}: panic: {}", q, p);
                        break;
                    }
                }
            }
            let xp = if self.setup.batch_period >= (1u64 << 33) || self.setup.unbonding >= (1u64 << 33) { " [cfg: period >= 2^33 s]" } else { "" };
            if !qs.is_empty() {
                qs.push_str(xp);
            }
            let mut out = out.clone();
            if out.panic {
                out.err.push_str(xp);
            }
            let out = &out;
            let line = json!({"parent": parent, "call": {"m": inner, "s": call["s"].as_str().unwrap_or("")}, "callj": call.to_string(),
                "res": {"ok": out.ok, "panic": out.panic, "err": out.err.chars().take(200).collect::<String>()},
                "qpanic": qs});
            self.at = sink.push(line);
            return self.at;
        }
        let line = json!({
            "build": if cfg!(feature = "miniwasm") { "miniwasm" } else { "osmosis" },
            "parent": parent,
            "call": call,
            "res": {"ok": out.ok, "err": out.err, "panic": out.panic, "msgs": out.msgs},
            "post": project(&self.w),
        });
        self.at = sink.push(line);
        self.at
    }

    fn state_nlf(&self) -> (u128, u128, u128) {
        let st = self.w.query(json!({"state": {}}));
        (ju(&st, "total_native_token"), ju(&st, "total_liquid_stake_token"), ju(&st, "total_fees"))
    }

    fn funds_of(&self, call: &Value) -> Vec<(String, u128)> {
        let mut v = vec![];
        if let Some(arr) = call.get("funds").and_then(|x| x.as_array()) {
            for f in arr {
                let d = f.get(0).and_then(|x| x.as_str()).unwrap_or("");
                let x = match f.get(1) {
                    Some(Value::Number(n)) => n.as_u64().unwrap_or(0) as u128,
                    Some(Value::String(s)) => s.parse().unwrap_or(0),
                    _ => 0,
                };
                v.push((self.ad(d), x));
            }
        }
        v
    }

    fn classify(&self, addr: &str) -> &'static str {
        let cfg = proj::cfg_of(&self.w);
        let np = cfg.pointer("/native_chain_config/account_address_prefix").and_then(|x| x.as_str()).unwrap_or("");
        let pp = cfg.pointer("/protocol_chain_config/account_address_prefix").and_then(|x| x.as_str()).unwrap_or("");
        match (is_bech32_with_prefix(addr, np), is_bech32_with_prefix(addr, pp)) {
            (true, true) => "both",
            (true, false) => "native",
            (false, true) => "protocol",
            _ => "invalid",
        }
    }

    fn valoper_valid(&self, v: &str) -> bool {
        let cfg = proj::cfg_of(&self.w);
        let vp = cfg.pointer("/native_chain_config/validator_address_prefix").and_then(|x| x.as_str()).unwrap_or("");
        is_bech32_with_prefix(v, vp)
    }

    /// Executes one abstract call and logs it. Returns the outcome.
    pub fn apply(&mut self, sink: &mut Sink, call_in: &Value) -> TxOut {
        let parent = self.at;
        let (call, out) = self.step(call_in);
        self.log(sink, parent, call, &out);
        out
    }

    /// Executes one abstract call without logging; returns the call completed with the facts the
    /// harness establishes about its arguments, and the outcome.
    pub fn step(&mut self, call_in: &Value) -> (Value, TxOut) {
        let mut call = call_in.clone();
        let m = jstr(&call, "m");
        let sender = self.ad(&jstr(&call, "s"));
        let (n0, l0, f0) = if self.w.instantiated { self.state_nlf() } else { (0, 0, 0) };
        let tenv = TxEnv {
            ibc_fail: call
                .get("ibc_fail")
                .and_then(|x| x.as_array())
                .map(|a| a.iter().filter_map(|x| x.as_u64().map(|y| y as usize)).collect())
                .unwrap_or_default(),
        };
        self.w.notx = call.get("notx").and_then(|x| x.as_bool()).unwrap_or(false);
        let out: TxOut = match m.as_str() {
            // ------------------------------------------------------------ environment
            "faucet" => {
                let a = self.ad(&jstr(&call, "a"));
                let d = self.ad(&jstr(&call, "d"));
                self.w.credit(&a, &d, ju(&call, "x"));
                TxOut { ok: true, ..Default::default() }
            }
            "ibc_set_next" => {
                // sequence numbers are per channel: the counter of the channel now in use
                self.w.ibc_next = ju(&call, "n") as u64;
                TxOut { ok: true, ..Default::default() }
            }
            "stray_reply" => self.w.tx_stray_reply(ju(&call, "id") as u64, ju(&call, "variant") as u64),
            "nat_fund" => {
                let a = self.ad(&jstr(&call, "a"));
                *self.w.nat_bal.entry(a).or_insert(0) += ju(&call, "x");
                self.w.led.honest = false;
                TxOut { ok: true, ..Default::default() }
            }
            "time" => {
                // {"dt": n} = n seconds from now (scenario files); the logged call always carries `t`
                if call.get("t").is_none() {
                    call["t"] = json!(self.w.now_s() + ju(&call, "dt") as u64);
                }
                let t = ju(&call, "t") as u64;
                // block time is u64 nanoseconds: instants beyond year ~2554 cannot be reached
                // domain: block times up to the year 2200 (a saturated deadline is never reached)
                // `ns`: the sub-second part of the block time (real blocks never fall on a whole second; the model asks for
                // .999999999 on the second BEFORE a deadline - still too early - and .0 on the deadline itself)
                let sub = ju(&call, "ns") as u64 % 1_000_000_000;
                match t.checked_mul(1_000_000_000).filter(|_| t <= 7_258_118_400) {
                    Some(ns) => {
                        if t >= self.w.now_s() {
                            self.w.now_ns = ns + sub;
                            self.w.height += 1;
                            self.w.tx_index = 0;
                        }
                        TxOut { ok: true, ..Default::default() }
                    }
                    None => TxOut { ok: false, err: "harness: instant not representable as block time".into(), ..Default::default() },
                }
            }
            "ibc_ack" => {
                let seq = ju(&call, "seq") as u64;
                let outcome = jstr(&call, "outcome");
                let staker = proj::staker_addr(&self.w);
                match self.w.ibc_outcome(seq, &outcome, &staker) {
                    Some(o) => o,
                    None => TxOut { ok: self.w.fly.get(&seq).is_none() && false, err: "no such packet in flight".into(), ..Default::default() },
                }
            }
            "stray" => {
                // an acknowledgement / timeout callback that does not belong to a packet in flight
                let channel = jstr(&call, "channel");
                let seq = ju(&call, "seq") as u64;
                let kind = jstr(&call, "kind");
                let msg = if kind == "timeout" {
                    json!({"ibc_lifecycle_complete": {"ibc_timeout": {"channel": channel, "sequence": seq}}})
                } else {
                    json!({"ibc_lifecycle_complete": {"ibc_ack": {"channel": channel, "sequence": seq, "ack": "x", "success": kind == "ok"}}})
                };
                self.w.tx_sudo(&msg)
            }
            "hook" => {
                let ch = jstr(&call, "channel");
                let from = self.ad(&jstr(&call, "from"));
                let amt = ju(&call, "amt");
                let inner = jstr(&call, "inner");
                let msg = if inner == "receive_rewards" {
                    json!({"receive_rewards": {}})
                } else {
                    json!({"receive_unstaked_tokens": {"batch_id": ju(&call, "b") as u64}})
                };
                let limited = call.get("limited").and_then(|x| x.as_bool()).unwrap_or(false);
                // expected amount of the batch, for the honesty ledger
                let exp = if inner == "receive_unstaked_tokens" {
                    let b = self.w.query(json!({"batch": {"id": ju(&call, "b") as u64}}));
                    Some(ju(&b, "expected_native_unstaked"))
                } else {
                    None
                };
                let den = match call.get("den").and_then(|x| x.as_str()) {
                    Some(d) => self.ad(d),
                    None => IBC_DENOM.to_string(),
                };
                let (h, o) = self.w.hook_call(&ch, &from, amt, &msg, limited, &den, &tenv);
                call["s"] = json!(self.w.names.nm(&h));
                if o.ok {
                    if let Some(e) = exp {
                        if e != amt {
                            self.w.led.honest = false;
                        }
                    }
                }
                o
            }
            // ------------------------------------------------------------ contract messages
            "liquid_stake" => {
                let mint_to = jstr(&call, "mint_to");
                let mint_to_addr = if mint_to.is_empty() { None } else { Some(self.ad(&mint_to)) };
                let r = mint_to_addr.clone().unwrap_or(sender.clone());
                call["rclass"] = json!(self.classify(&r));
                call["r"] = json!(self.w.names.nm(&r));
                call["skind"] = json!(if payload_len(&sender) == Some(20) { "eoa" } else { "long" });
                let tn = match jstr(&call, "to_native").as_str() {
                    "true" => json!(true),
                    "false" => json!(false),
                    _ => Value::Null,
                };
                let exp = match call.get("expected") {
                    Some(Value::String(s)) => json!(s),
                    _ => {
                        let e = ji(&call, "expected");
                        if e >= 0 { json!(e.to_string()) } else { Value::Null }
                    }
                };
                let msg = json!({"liquid_stake": {
                    "mint_to": mint_to_addr,
                    "transfer_to_native_chain": tn,
                    "expected_mint_amount": exp,
                }});
                let funds = self.funds_of(&call);
                let o = self.w.tx_execute(&sender, &msg, &funds, &tenv);
                if o.ok {
                    let (_, _, f1) = self.state_nlf();
                    self.w.led.swept += f1.saturating_sub(f0);
                }
                o
            }
            "liquid_unstake" => {
                let funds = self.funds_of(&call);
                self.w.tx_execute(&sender, &json!({"liquid_unstake": {}}), &funds, &tenv)
            }
            "submit_batch" => self.w.tx_execute(&sender, &json!({"submit_batch": {}}), &self.funds_of(&call), &tenv),
            "withdraw" => {
                let b = ju(&call, "b") as u64;
                let pre: u128 = proj::raw_requests(&self.w)
                    .iter()
                    .filter(|(bb, u, _)| *bb == b && *u == sender)
                    .map(|(_, _, a)| *a)
                    .sum();
                let o = self.w.tx_execute(&sender, &json!({"withdraw": {"batch_id": b}}), &self.funds_of(&call), &tenv);
                if o.ok {
                    let me = self.w.names.nm(&sender);
                    let paid: u128 = o
                        .msgs
                        .iter()
                        .filter(|m| m["k"] == "send" && m["to"] == json!(me) && m["den"] == "IBCTIA")
                        .map(|m| ju(m, "amt"))
                        .sum();
                    *self.w.led.paid.entry(b).or_insert(0) += paid;
                    *self.w.led.wdl.entry(b).or_insert(0) += pre;
                }
                o
            }
            "receive_rewards" => self.w.tx_execute(&sender, &json!({"receive_rewards": {}}), &self.funds_of(&call), &tenv),
            "receive_unstaked_tokens" => self.w.tx_execute(
                &sender,
                &json!({"receive_unstaked_tokens": {"batch_id": ju(&call, "b") as u64}}),
                &self.funds_of(&call),
                &tenv,
            ),
            "circuit_breaker" => self.w.tx_execute(&sender, &json!({"circuit_breaker": {}}), &self.funds_of(&call), &tenv),
            "resume_contract" => {
                let msg = json!({"resume_contract": {
                    "total_native_token": ju(&call, "n").to_string(),
                    "total_liquid_stake_token": ju(&call, "l").to_string(),
                    "total_reward_amount": ju(&call, "r").to_string()}});
                let o = self.w.tx_execute(&sender, &msg, &self.funds_of(&call), &tenv);
                if o.ok {
                    let (n1, l1, _) = self.state_nlf();
                    self.w.led.radj_n += n1 as i128 - n0 as i128;
                    self.w.led.radj_l += l1 as i128 - l0 as i128;
                    if n1 != n0 || l1 != l0 {
                        self.w.led.honest = false;
                    }
                }
                o
            }
            "recover" => {
                let has_sel = call.get("has_sel").and_then(|x| x.as_bool()).unwrap_or(false);
                let sel: Vec<u64> = call
                    .get("sel")
                    .and_then(|x| x.as_array())
                    .map(|a| a.iter().filter_map(|x| x.as_u64()).collect())
                    .unwrap_or_default();
                let rcv = jstr(&call, "receiver");
                let rcv_addr = if rcv.is_empty() { None } else { Some(self.ad(&rcv)) };
                if let Some(r) = &rcv_addr {
                    let c = self.classify(r);
                    call["rvalid"] = json!(c == "native" || c == "both");
                } else {
                    call["rvalid"] = json!(true);
                }
                let pg = match jstr(&call, "paginated").as_str() {
                    "true" => json!(true),
                    "false" => json!(false),
                    _ => Value::Null,
                };
                // forced recovery of a packet that is still in flight re-sends money the
                // contract was never refunded: not an honest history any more
                if has_sel && sel.iter().any(|s| self.w.fly.contains_key(s)) {
                    call["forced_inflight"] = json!(true);
                }
                let msg = json!({"recover_pending_ibc_transfers": {
                    "paginated": pg,
                    "selected_packets": if has_sel { json!(sel) } else { Value::Null },
                    "receiver": rcv_addr}});
                let o = self.w.tx_execute(&sender, &msg, &self.funds_of(&call), &tenv);
                if o.ok && call.get("forced_inflight").is_some() {
                    self.w.led.honest = false;
                    self.w.led.forced = true;
                }
                o
            }
            "fee_withdraw" => self.w.tx_execute(
                &sender,
                &json!({"fee_withdraw": {"amount": ju(&call, "amt").to_string()}}),
                &self.funds_of(&call),
                &tenv,
            ),
            "add_validator" => {
                let v = self.ad(&jstr(&call, "v"));
                call["vvalid"] = json!(self.valoper_valid(&v));
                self.w.tx_execute(&sender, &json!({"add_validator": {"new_validator": v}}), &[], &tenv)
            }
            "remove_validator" => {
                let v = self.ad(&jstr(&call, "v"));
                call["vvalid"] = json!(self.valoper_valid(&v));
                self.w.tx_execute(&sender, &json!({"remove_validator": {"validator": v}}), &[], &tenv)
            }
            "transfer_ownership" => {
                let to = self.ad(&jstr(&call, "to"));
                {
                    use cosmwasm_std::Api;
                    let api = crate::store::ChainApi { prefix: self.w.prefix.clone() };
                    call["tvalid"] = json!(api.addr_validate(&to).is_ok());
                }
                self.w.tx_execute(&sender, &json!({"transfer_ownership": {"new_owner": to}}), &[], &tenv)
            }
            "accept_ownership" => self.w.tx_execute(&sender, &json!({"accept_ownership": {}}), &[], &tenv),
            "revoke_ownership_transfer" => {
                self.w.tx_execute(&sender, &json!({"revoke_ownership_transfer": {}}), &[], &tenv)
            }
            "update_config" => {
                let msg = self.update_config_msg(&call);
                let key = |w: &World| {
                    let c = proj::cfg_of(w);
                    (c.pointer("/native_chain_config/staker_address").cloned(), c.pointer("/protocol_chain_config/ibc_channel_id").cloned(),
                     c.pointer("/protocol_chain_config/ibc_token_denom").cloned())
                };
                let before = key(&self.w);
                let o = self.w.tx_execute(&sender, &msg, &[], &tenv);
                if o.ok && key(&self.w) != before {
                    self.w.led.repointed = true;
                }
                o
            }
            // ------------------------------------------------------------ upgrade in the middle of a history
            "migrate_roundtrip" => {
                // the store is rewritten into the 1.0.0 layout (raw bytes) and migrated to 1.1.0 again; for
                // histories whose tracked packets are all staked-asset transfers to the staker this must be
                // the identity on the abstract state, and the history then continues
                let cfg = proj::cfg_of(&self.w);
                let natden = cfg.pointer("/protocol_chain_config/ibc_token_denom").and_then(|x| x.as_str()).unwrap_or("").to_string();
                let staker = proj::staker_addr(&self.w);
                let q = self.w.query(json!({"ibc_queue": {}}));
                let eligible = q["ibc_queue"].as_array().map(|a| a.iter().all(|p| p["amount"]["denom"] == json!(natden) && p["receiver"] == json!(staker))).unwrap_or(false);
                call["eligible"] = json!(eligible);
                if !eligible {
                    TxOut { ok: false, err: "harness: store not expressible in the 1.0.0 layout".into(), ..Default::default() }
                } else {
                    crate::migrate::downgrade_1_0_0(&mut self.w, 0);
                    self.w.tx_migrate(&json!({"v1_0_0_to_v1_1_0": {}}))
                }
            }
            "migrate_from_0_4_20" => {
                crate::migrate::to_0_4_20(&mut self.w);
                let np = native_prefix(&self.setup);
                self.w.tx_migrate(&json!({"v0_4_20_to_v1_0_0": {"native_account_address_prefix": np, "native_validator_address_prefix": format!("{np}valoper"),
                                                               "native_token_denom": "utia", "protocol_account_address_prefix": "osmo"}}))
            }
            // ------------------------------------------------------------ treasury contract
            "t_instantiate" => {
                use cosmwasm_std::Api;
                let api = crate::store::ChainApi { prefix: self.w.prefix.clone() };
                let admin = jstr(&call, "admin");
                let trader = jstr(&call, "trader");
                let a = if admin.is_empty() { None } else { Some(self.ad(&admin)) };
                let t = if trader.is_empty() { None } else { Some(self.ad(&trader)) };
                call["avalid"] = json!(a.as_ref().map(|x| api.addr_validate(x).is_ok()).unwrap_or(true)
                    && t.as_ref().map(|x| api.addr_validate(x).is_ok()).unwrap_or(true));
                let msg = json!({"admin": a, "trader": t, "allowed_swap_routes": routes_json(&call["routes"])});
                self.w.tx_treasury("instantiate", &sender, &msg)
            }
            "t_swap_in" | "t_swap_out" => {
                let hops = route_json(&call["route"]);
                let coin = json!({"denom": jstr(&call, "den"), "amount": ju(&call, "amt").to_string()});
                let lim = ju(&call, "limit").to_string();
                let msg = if m == "t_swap_in" {
                    json!({"swap_exact_amount_in": {"routes": hops, "token_in": coin, "token_out_min_amount": lim}})
                } else {
                    json!({"swap_exact_amount_out": {"routes": hops, "token_out": coin, "token_in_max_amount": lim}})
                };
                self.w.tx_treasury("execute", &sender, &msg)
            }
            "t_spend" => {
                let rcv = self.ad(&jstr(&call, "receiver"));
                call["rosmo"] = json!(is_bech32_with_prefix(&rcv, "osmo"));
                call["rcel"] = json!(is_bech32_with_prefix(&rcv, "celestia"));
                let ch = jstr(&call, "channel");
                let msg = json!({"spend_funds": {"amount": {"denom": self.ad(&jstr(&call, "den")), "amount": ju(&call, "amt").to_string()},
                    "receiver": rcv, "channel_id": if ch.is_empty() { Value::Null } else if ch == "<empty>" { json!("") } else { json!(ch) }}});
                self.w.tx_treasury("execute", &sender, &msg)
            }
            "t_update_config" => {
                use cosmwasm_std::Api;
                let api = crate::store::ChainApi { prefix: self.w.prefix.clone() };
                let ht = call["has_trader"].as_bool().unwrap_or(false);
                let hr = call["has_routes"].as_bool().unwrap_or(false);
                let tr = self.ad(&jstr(&call, "trader"));
                call["tvalid"] = json!(!ht || api.addr_validate(&tr).is_ok());
                let msg = json!({"update_config": {"trader": if ht { json!(tr) } else { Value::Null },
                    "allowed_swap_routes": if hr { routes_json(&call["routes"]) } else { Value::Null }}});
                self.w.tx_treasury("execute", &sender, &msg)
            }
            "t_transfer_ownership" => {
                use cosmwasm_std::Api;
                let api = crate::store::ChainApi { prefix: self.w.prefix.clone() };
                let to = self.ad(&jstr(&call, "to"));
                call["tvalid"] = json!(api.addr_validate(&to).is_ok());
                self.w.tx_treasury("execute", &sender, &json!({"transfer_ownership": {"new_owner": to}}))
            }
            "t_accept_ownership" => self.w.tx_treasury("execute", &sender, &json!({"accept_ownership": {}})),
            "t_revoke_ownership_transfer" => self.w.tx_treasury("execute", &sender, &json!({"revoke_ownership_transfer": {}})),
            other => TxOut { ok: false, err: format!("harness: unknown abstract call {other}"), ..Default::default() },
        };
        (call, out)
    }

    /// update_config from an abstract description: {"fee": n, "treasury": name|"" , "oracle": ..., ...}
    /// Only the sections mentioned are supplied; the other fields of a supplied section are
    /// copied from the current configuration (that is how an operator builds the message).
    pub fn update_config_msg(&self, call: &Value) -> Value {
        let cfg = proj::cfg_of(&self.w);
        let mut msg = json!({});
        let up = call.get("up").cloned().unwrap_or(json!({}));
        if let Some(f) = up.get("feecfg") {
            msg["protocol_fee_config"] = json!({
                "dao_treasury_fee": ju(f, "fee").to_string(),
                "treasury_address": if jstr(f, "treasury").is_empty() { Value::Null } else { json!(self.ad(&jstr(f, "treasury"))) },
            });
        }
        if let Some(p) = up.get("proto") {
            let cur = cfg.get("protocol_chain_config").cloned().unwrap_or(json!({}));
            msg["protocol_chain_config"] = json!({
                "account_address_prefix": p.get("prefix").cloned().unwrap_or(cur["account_address_prefix"].clone()),
                "ibc_token_denom": cur["ibc_token_denom"].clone(),
                "ibc_channel_id": p.get("channel").cloned().unwrap_or(cur["ibc_channel_id"].clone()),
                "minimum_liquid_stake_amount": match p.get("minStake") { Some(_) => json!(ju(p, "minStake").to_string()), None => cur["minimum_liquid_stake_amount"].clone() },
                "oracle_address": match p.get("oracle") {
                    Some(Value::String(s)) if s.is_empty() => Value::Null,
                    Some(Value::String(s)) => json!(self.ad(s)),
                    _ => cur["oracle_address"].clone(),
                },
            });
        }
        if let Some(n) = up.get("native") {
            let cur = cfg.get("native_chain_config").cloned().unwrap_or(json!({}));
            msg["native_chain_config"] = json!({
                "account_address_prefix": cur["account_address_prefix"].clone(),
                "validator_address_prefix": cur["validator_address_prefix"].clone(),
                "token_denom": cur["token_denom"].clone(),
                "validators": cur["validators"].clone(),
                "unbonding_period": n.get("unbonding").cloned().unwrap_or(cur["unbonding_period"].clone()),
                "staker_address": match n.get("staker") { Some(Value::String(s)) => json!(self.ad(s)), _ => cur["staker_address"].clone() },
                "reward_collector_address": match n.get("collector") { Some(Value::String(s)) => json!(self.ad(s)), _ => cur["reward_collector_address"].clone() },
            });
        }
        if let Some(ms) = up.pointer("/monitorsec/list").and_then(|x| x.as_array()) {
            msg["monitors"] = json!(ms.iter().map(|m| self.ad(m.as_str().unwrap_or(""))).collect::<Vec<_>>());
        }
        if let Some(bp) = up.pointer("/period/secs") {
            msg["batch_period"] = bp.clone();
        }
        json!({"update_config": msg})
    }
}

pub fn setup_from_call(call: &Value) -> Setup {
    let c = &call["cfg"];
    Setup {
        same_prefix: c["samePrefix"].as_bool().unwrap_or(false),
        treasury: !jstr(c, "treasury").is_empty(),
        oracle: !jstr(c, "oracle").is_empty(),
        fee: ju(c, "fee"),
        min_stake: ju(c, "minStake"),
        batch_period: ju(c, "batchPeriod") as u64,
        unbonding: ju(c, "unbonding") as u64,
        monitors: c["monitors"].as_array().map(|a| a.iter().map(|x| x.as_str().unwrap_or("").to_string()).collect()).unwrap_or_default(),
        sub: { let s = jstr(c, "sub"); if s.is_empty() { "stTIA".to_string() } else { s } },
    }
}

fn route_json(route: &Value) -> Value {
    json!(route
        .as_array()
        .map(|h| h.iter().map(|x| json!({"pool_id": x["pool"], "token_in_denom": x["din"], "token_out_denom": x["dout"]})).collect::<Vec<_>>())
        .unwrap_or_default())
}
fn routes_json(routes: &Value) -> Value {
    json!(routes.as_array().map(|a| a.iter().map(route_json).collect::<Vec<_>>()).unwrap_or_default())
}
