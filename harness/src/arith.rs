//! Vectors through the REAL arithmetic helpers (helpers.rs compute_mint_amount / compute_unbond_amount)
//! for spec/ArithTrace.tla (exhaustive small triples, TLC) and the generated Apalache module
//! (128-bit boundary and random vectors).
use cosmwasm_std::{Uint128, Uint256};
use rand::rngs::StdRng;
use rand::{Rng, SeedableRng};
use serde_json::{json, Value};
use std::io::Write;
use std::panic::{catch_unwind, AssertUnwindSafe};

fn mint(n: u128, l: u128, a: u128) -> Option<u128> {
    catch_unwind(AssertUnwindSafe(|| staking::helpers::compute_mint_amount(Uint128::new(n), Uint128::new(l), Uint128::new(a)).u128())).ok()
}
fn unbond(n: u128, l: u128, b: u128) -> Option<u128> {
    catch_unwind(AssertUnwindSafe(|| staking::helpers::compute_unbond_amount(Uint128::new(n), Uint128::new(l), Uint128::new(b)).u128())).ok()
}

/// one record per (N, L) in 0..=k: mint for every a in 0..=k, unbond for every b in 0..=min(L, k)
pub fn small(k: u64, out: &mut dyn Write) -> u64 {
    let mut evals = 0u64;
    for n in 0..=k {
        for l in 0..=k {
            let m: Vec<i64> = (0..=k).map(|a| mint(n as u128, l as u128, a as u128).map(|x| x as i64).unwrap_or(-1)).collect();
            let u: Vec<i64> = (0..=l.min(k)).map(|b| unbond(n as u128, l as u128, b as u128).map(|x| x as i64).unwrap_or(-1)).collect();
            evals += (m.len() + u.len()) as u64;
            writeln!(out, "{}", json!({"N": n, "L": l, "mint": m, "unbond": u})).unwrap();
        }
    }
    evals
}

fn representable(x: u128, y: u128, d: u128) -> bool {
    if d == 0 {
        return false;
    }
    let p = Uint256::from(x) * Uint256::from(y) / Uint256::from(d);
    p <= Uint256::from(u128::MAX)
}

/// boundary + seeded random 128-bit vectors, only those whose result is representable
pub fn big(seed: u64, count: usize) -> Vec<Value> {
    let mut rng = StdRng::seed_from_u64(seed);
    let p = |e: u32| 10u128.pow(e);
    let interesting: Vec<u128> = vec![
        1, 2, 3, 7, 999, 1000, 1001, p(6), p(9), p(12), p(18), p(24), p(27), p(27) - 1, p(27) + 1, p(30),
        u64::MAX as u128 - 1, u64::MAX as u128, u64::MAX as u128 + 1, 1u128 << 96, (1u128 << 96) - 1, 1u128 << 127, (1u128 << 127) - 1,
        u128::MAX - 1, u128::MAX, p(38), 3 * p(38),
    ];
    let mut pick = |rng: &mut StdRng| -> u128 {
        match rng.gen_range(0..10) {
            0..=5 => interesting[rng.gen_range(0..interesting.len())],
            6 | 7 => rng.gen::<u128>() >> rng.gen_range(0..127),
            _ => {
                let b = interesting[rng.gen_range(0..interesting.len())];
                let d = rng.gen_range(0..1000u128);
                if rng.gen_bool(0.5) { b.saturating_add(d) } else { b.saturating_sub(d).max(1) }
            }
        }
    };
    let mut out = vec![];
    let mut tries = 0;
    while out.len() < count && tries < count * 200 {
        tries += 1;
        let n = pick(&mut rng);
        // exchange rates within [10^-3, 10^3] most of the time, arbitrary otherwise
        let l = if rng.gen_bool(0.7) {
            let f = rng.gen_range(1..=1000u128);
            if rng.gen_bool(0.5) { n.saturating_mul(f).max(1) } else { (n / f).max(1) }
        } else {
            pick(&mut rng)
        };
        let a = pick(&mut rng);
        if rng.gen_bool(0.5) {
            if !representable(l, a, n) {
                continue;
            }
            let r = mint(n, l, a);
            out.push(json!({"op": "mint", "n": n.to_string(), "l": l.to_string(), "x": a.to_string(),
                            "r": r.map(|v| v.to_string()).unwrap_or("panic".into())}));
        } else {
            let b = if l == 0 { 0 } else if l == u128::MAX { a } else { a % (l + 1) };
            let b = b.min(l);
            if l == 0 || !representable(n, b, l) {
                continue;
            }
            let r = unbond(n, l, b);
            out.push(json!({"op": "unbond", "n": n.to_string(), "l": l.to_string(), "x": b.to_string(),
                            "r": r.map(|v| v.to_string()).unwrap_or("panic".into())}));
        }
    }
    out
}
