#!/bin/sh
# Builds the harness (both token-factory builds) from /repo's working tree, offline, and parses the specs.
set -e
cd "$(dirname "$0")"
export CARGO_NET_OFFLINE=true
(cd harness && cargo build --release --offline 2>&1 | tail -3)
(cd harness && cargo build --release --offline --features miniwasm --target-dir target-mw 2>&1 | tail -3)
for f in spec/*.tla; do tla-sany "$f" >/dev/null 2>&1 || { echo "SANY failed: $f"; exit 1; }; done
python3 tools/mwcheck.py --warm quick
echo setup-ok
