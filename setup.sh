#!/bin/sh
# Builds the harness (both token-factory builds) from /repo's working tree, offline, parses the specs and
# generates the quick-tier TLC test suites (pure functions of the specification).
set -e
cd "$(dirname "$0")"
export CARGO_NET_OFFLINE=true
(cd harness && cargo build --release --offline 2>&1 | tail -2)
(cd harness && cargo build --release --offline --features miniwasm --target-dir target-mw 2>&1 | tail -2)
(cd spec && for f in Trace MilkyWay OwnershipMC TreasuryMC ArithTrace HookAuthTrace ConfigMC; do tla-sany "$f.tla" >/dev/null 2>&1 || { echo "SANY failed: $f"; exit 1; }; done)
python3 tools/mwcheck.py --warm quick
# warm the C20 harness build and its TLC vector cache (its verdict is not setup's business)
python3 tools/c20check.py quick > work/c20-setup.log 2>&1 || true
echo setup-ok
